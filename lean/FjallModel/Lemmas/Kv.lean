import FjallModel.Mvcc.Kv
import FjallModel.Lemmas.Mvcc
import FjallModel.Lemmas.Spec
namespace Fjall.Mvcc
open Fjall Fjall.Spec
open Fjall.Tx (TKind)

theorem empty_inv : Inv ({} : Tree) := by
  constructor
  · simp [Tree.comps, Ordered]
  · simp [Tree.comps, Distinct]

theorem empty_abs (k : Key) (inst : Option Nat) : ({} : Tree).absGet inst k = none := by
  simp [Tree.absGet, Tree.comps, newestIn]

theorem absMap_get (t : Tree) (inst : Option Nat) (k : Key) :
    (t.absMap inst).get k = t.absGet inst k := by
  simp only [Tree.absMap]
  have : ∀ l : Run, (∀ e ∈ l, e ∈ t.comps.flatten) →
      KMap.get (l.map fun e => (e.key, t.absGet inst e.key)) k =
        if (∃ e ∈ l, e.key = k) then t.absGet inst k else none := by
    intro l
    induction l with
    | nil => simp [KMap.get]
    | cons x r ih =>
      intro hsub
      simp only [List.map_cons, KMap.get]
      by_cases hx : x.key = k
      · simp [hx]
      · rw [if_neg hx, ih (fun e he => hsub e (by simp [he]))]
        simp [hx]
  rw [this _ (fun e he => he)]
  split
  · rfl
  · rename_i hne
    symm
    simp only [Tree.absGet]
    have : newestIn inst k t.comps.flatten = none := by
      rw [newestIn_none]
      rintro d hd ⟨hk, _⟩
      exact hne ⟨d, hd, hk⟩
    rw [this]; rfl

/-- a keyspace's tree against its reference map -/
structure TRel (t : Tree) (s : Nat) (m : KMap) : Prop where
  inv : Inv t
  below : ∀ e ∈ t.comps.flatten, e.seqno < s
  abs : ∀ k, t.absGet none k = m.get k

def Rel (s : Kv) (m : KsId → KMap) : Prop := ∀ ks, TRel (s.trees ks) s.seqno (m ks)

theorem TRel.mono {t : Tree} {s s' : Nat} {m : KMap} (h : TRel t s m) (hs : s ≤ s') : TRel t s' m :=
  ⟨h.inv, fun e he => Nat.lt_of_lt_of_le (h.below e he) hs, h.abs⟩

theorem itemEntry_toVal (s : Nat) (k : Key) (v : Option Val) : (itemEntry s k v).toVal = v := by
  cases v <;> simp [itemEntry, VEntry.toVal]

theorem itemEntry_key (s : Nat) (k : Key) (v : Option Val) : (itemEntry s k v).key = k := by
  cases v <;> rfl

theorem itemEntry_seqno (s : Nat) (k : Key) (v : Option Val) : (itemEntry s k v).seqno = s := by
  cases v <;> rfl

theorem trel_apply (t : Tree) (s : Nat) (m : KMap) (h : TRel t s m) (k : Key) (v : Option Val) :
    TRel (t.apply (itemEntry s k v)) (s + 1) ((k, v) :: m) := by
  have hf : FreshFor t (itemEntry s k v) := by
    intro d hd _
    rw [itemEntry_seqno]; exact h.below d hd
  refine ⟨apply_inv t _ h.inv hf, ?_, ?_⟩
  · intro e he
    rw [apply_comps, List.mem_cons] at he
    rcases he with rfl | he
    · rw [itemEntry_seqno]; omega
    · have := h.below e he; omega
  · intro k'
    rw [apply_abs t _ h.inv hf, itemEntry_key, itemEntry_toVal]
    simp only [KMap.get]
    by_cases hk : k' = k
    · subst hk; simp
    · rw [if_neg hk, if_neg (Ne.symm hk)]
      exact h.abs k'

/-! batches: all items carry the same seqno; a key named again replaces its earlier item -/

structure BRel (t : Tree) (s : Nat) (m : KMap) (done : List Key) : Prop where
  inv : Inv t
  below : ∀ e ∈ t.comps.flatten, e.seqno < s ∨ (e.seqno = s ∧ e.key ∈ done ∧ e ∈ t.active)
  abs : ∀ k, t.absGet none k = m.get k

theorem lower_below {t : Tree} {s : Nat} {m : KMap} {done : List Key} (h : BRel t s m done)
    (x : VEntry) (hx : x ∈ t.sealed.flatten ++ t.tables.flatten) : x.seqno < s := by
  have hmem : x ∈ t.comps.flatten := by rw [comps_flatten]; exact List.mem_append_right _ hx
  rcases h.below x hmem with hlt | ⟨_, _, hact⟩
  · exact hlt
  · -- an entry of the active memtable cannot also sit in a lower component
    have ho := h.inv.ordered
    simp only [Tree.comps, Ordered] at ho
    have := (ordered_append_flat (t.sealed ++ t.tables) t.active).mp ho.1 x hact x
      (by rw [List.flatten_append]; exact hx) rfl
    omega

theorem brel_applyR (t : Tree) (s : Nat) (m : KMap) (done : List Key) (h : BRel t s m done)
    (k : Key) (v : Option Val) :
    BRel (t.applyR (itemEntry s k v)) s ((k, v) :: m) (k :: done) := by
  have hek : (itemEntry s k v).key = k := itemEntry_key s k v
  have hes : (itemEntry s k v).seqno = s := itemEntry_seqno s k v
  generalize he : itemEntry s k v = e at hek hes
  have hflat : (t.applyR e).comps.flatten =
      e :: ((t.active.filter fun x => !(decide (x.key = e.key) && decide (x.seqno = e.seqno))) ++
        (t.sealed.flatten ++ t.tables.flatten)) := by
    simp [Tree.applyR, Tree.comps, List.flatten_append]
  have hfilt_sub : ∀ x, x ∈ (t.active.filter fun x => !(decide (x.key = e.key) && decide (x.seqno = e.seqno))) →
      x ∈ t.active ∧ ¬ (x.key = k ∧ x.seqno = s) := by
    intro x hx
    have := List.mem_filter.mp hx
    refine ⟨this.1, ?_⟩
    have h2 := this.2
    simp only [Bool.not_eq_true', Bool.and_eq_false_iff, decide_eq_false_iff_not, hek, hes] at h2
    intro ⟨a, b⟩
    rcases h2 with h2 | h2
    · exact h2 a
    · exact h2 b
  have hold_flat := comps_flatten t
  -- every old entry with key k has seqno ≤ s; those kept in the new tree with key k have seqno < s
  have hkept_lt : ∀ x, x ∈ (t.active.filter fun x => !(decide (x.key = e.key) && decide (x.seqno = e.seqno))) ++
      (t.sealed.flatten ++ t.tables.flatten) → x.key = k → x.seqno < s := by
    intro x hx hxk
    rcases List.mem_append.mp hx with hx | hx
    · obtain ⟨ha, hne⟩ := hfilt_sub x hx
      have hmem : x ∈ t.comps.flatten := by rw [hold_flat]; exact List.mem_append_left _ ha
      rcases h.below x hmem with hlt | ⟨heq, _, _⟩
      · exact hlt
      · exact absurd ⟨hxk, heq⟩ hne
    · exact lower_below h x hx
  have hsubl : ((t.active.filter fun x => !(decide (x.key = e.key) && decide (x.seqno = e.seqno))) ++
      (t.sealed.flatten ++ t.tables.flatten)).Sublist t.comps.flatten := by
    rw [hold_flat]
    exact List.Sublist.append List.filter_sublist (List.Sublist.refl _)
  have hdist' : Distinct (t.applyR e).comps.flatten := by
    rw [hflat, Distinct, List.pairwise_cons]
    refine ⟨?_, distinct_sublist hsubl h.inv.distinct⟩
    intro d hd hk
    have := hkept_lt d hd (by rw [← hk, hek])
    omega
  have hinv' : Inv (t.applyR e) := by
    refine ⟨?_, hdist'⟩
    have ho := h.inv.ordered
    simp only [Tree.applyR, Tree.comps, Ordered] at ho ⊢
    refine ⟨?_, ho.2⟩
    intro x hx d hdm e' he' hk
    simp only [List.mem_cons] at hx
    rcases hx with rfl | hx
    · have : e' ∈ t.sealed.flatten ++ t.tables.flatten := by
        rw [← List.flatten_append]; exact List.mem_flatten.mpr ⟨d, hdm, he'⟩
      have := lower_below h e' this
      omega
    · exact ho.1 x (hfilt_sub x hx).1 d hdm e' he' hk
  refine ⟨hinv', ?_, ?_⟩
  · intro x hx
    rw [hflat, List.mem_cons] at hx
    rcases hx with rfl | hx
    · right; exact ⟨hes, by rw [hek]; simp, by simp [Tree.applyR]⟩
    · rcases List.mem_append.mp hx with hx | hx
      · obtain ⟨ha, _⟩ := hfilt_sub x hx
        have hmem : x ∈ t.comps.flatten := by rw [hold_flat]; exact List.mem_append_left _ ha
        rcases h.below x hmem with hlt | ⟨h1, h2, _⟩
        · left; exact hlt
        · right; exact ⟨h1, by simp [h2], by simp only [Tree.applyR, List.mem_cons]; right; exact hx⟩
      · left; exact lower_below h x hx
  · intro k'
    simp only [Tree.absGet, KMap.get]
    by_cases hk' : k' = k
    · subst hk'
      simp only [if_true]
      have : newestIn none k' (t.applyR e).comps.flatten = some e := by
        rw [newestIn_iff _ _ _ hdist']
        refine ⟨by rw [hflat]; simp, hek, rfl, fun d hdm hdk _ => ?_⟩
        rw [hflat, List.mem_cons] at hdm
        rcases hdm with rfl | hdm
        · exact Nat.le_refl _
        · have := hkept_lt d hdm hdk; omega
      rw [this, ← he]
      show (itemEntry s k' v).toVal = v
      exact itemEntry_toVal s k' v
    · have hkne : ¬ k = k' := fun x => hk' x.symm
      simp only [hkne, if_false]
      rw [← h.abs k']
      simp only [Tree.absGet]
      congr 1
      cases hn : newestIn none k' t.comps.flatten with
      | none =>
        rw [newestIn_none] at hn ⊢
        intro d hdm
        rw [hflat, List.mem_cons] at hdm
        rcases hdm with rfl | hdm
        · intro ⟨a, _⟩; rw [hek] at a; exact hk' a.symm
        · exact hn d (hsubl.subset hdm)
      | some x =>
        obtain ⟨hm, hxk, hv, hmax⟩ := newestIn_some none k' _ x hn
        rw [newestIn_iff _ _ _ hdist']
        refine ⟨?_, hxk, hv, ?_⟩
        · rw [hflat, List.mem_cons]; right
          rw [hold_flat] at hm
          rcases List.mem_append.mp hm with hm | hm
          · refine List.mem_append_left _ (List.mem_filter.mpr ⟨hm, ?_⟩)
            simp only [Bool.not_eq_true', Bool.and_eq_false_iff, decide_eq_false_iff_not, hek]
            left; rw [hxk]; exact hk'
          · exact List.mem_append_right _ hm
        · intro d hdm hdk hdv
          rw [hflat, List.mem_cons] at hdm
          rcases hdm with rfl | hdm
          · rw [hek] at hdk; exact absurd hdk.symm hk'
          · exact hmax d (hsubl.subset hdm) hdk hdv

theorem applyItems_rel (items : List (KsId × Key × Option Val)) (s : Nat)
    (trees : KsId → Tree) (m : KsId → KMap) (done : KsId → List Key)
    (h : ∀ ks, BRel (trees ks) s (m ks) (done ks)) :
    ∀ ks, ∃ d, BRel (applyItems trees s items ks) s (specItems m items ks) d := by
  induction items generalizing trees m done with
  | nil => intro ks; exact ⟨_, h ks⟩
  | cons it r ih =>
    obtain ⟨ks0, k0, v0⟩ := it
    simp only [applyItems, specItems]
    apply ih _ _ (fun x => if x = ks0 then k0 :: done ks0 else done x)
    intro ks
    by_cases hks : ks = ks0
    · subst hks
      simp only [if_true]
      exact brel_applyR _ s _ _ (h ks) k0 v0
    · simp only [if_neg hks]
      exact h ks

theorem brel_to_trel {t : Tree} {s : Nat} {m : KMap} {d : List Key} (h : BRel t s m d) :
    TRel t (s + 1) m :=
  ⟨h.inv, fun e he => by rcases h.below e he with h1 | ⟨h1, _⟩ <;> omega, h.abs⟩

theorem trel_to_brel {t : Tree} {s : Nat} {m : KMap} (h : TRel t s m) : BRel t s m [] :=
  ⟨h.inv, fun e he => Or.inl (h.below e he), h.abs⟩

end Fjall.Mvcc

namespace Fjall.Mvcc
open Fjall Fjall.Spec
open Fjall.Tx (TKind)

theorem trel_rotate {t : Tree} {s : Nat} {m : KMap} (h : TRel t s m) : TRel t.rotate s m :=
  ⟨rotate_inv t h.inv, fun e he => h.below e (by rw [rotate_flatten] at he; exact he),
   fun k => by rw [rotate_abs]; exact h.abs k⟩

theorem flush_sub (t : Tree) (w : Nat) : ∀ e ∈ (t.flush w).comps.flatten, e ∈ t.comps.flatten := by
  intro e he
  by_cases hs : t.sealed = []
  · simpa [Tree.flush, hs] using he
  · rw [flush_flatten t w hs] at he
    rw [comps_flatten]
    simp only [List.mem_append] at he ⊢
    rcases he with he | he | he
    · left; exact he
    · right; left; exact gcRun_sub _ _ _ e he
    · right; right; exact he

theorem trel_flush {t : Tree} {s s' : Nat} {m : KMap} (h : TRel t s m) (w : Nat) (hs : s ≤ s') :
    TRel (t.flush w) s' m :=
  ⟨flush_inv t w h.inv, fun e he => Nat.lt_of_lt_of_le (h.below e (flush_sub t w e he)) hs,
   fun k => by rw [flush_abs t w h.inv]; exact h.abs k⟩

theorem compact_sub (t : Tree) (i n w : Nat) :
    ∀ e ∈ (t.compact i n w).comps.flatten, e ∈ t.comps.flatten := by
  intro e he
  by_cases hv : n = 0 ∨ i + n > t.tables.length
  · simpa [Tree.compact, hv] using he
  · rw [compact_valid_flatten t i n w hv] at he
    rw [comps_split t i n]
    simp only [List.flatten_append, List.flatten_cons, List.mem_append] at he ⊢
    rcases he with (he | he | he) | he | he
    · left; left; exact he
    · left; right; left; exact he
    · left; right; right; exact he
    · right; left; exact gcRun_sub _ _ _ e he
    · right; right; exact he

theorem trel_compact {t : Tree} {s s' : Nat} {m : KMap} (h : TRel t s m) (i n w : Nat) (hs : s ≤ s') :
    TRel (t.compact i n w) s' m :=
  ⟨compact_inv t i n w h.inv, fun e he => Nat.lt_of_lt_of_le (h.below e (compact_sub t i n w e he)) hs,
   fun k => by rw [compact_abs t i n w h.inv]; exact h.abs k⟩

theorem trel_clear (s : Nat) : TRel ({} : Tree).clear s [] :=
  ⟨empty_inv, by simp [Tree.clear, Tree.comps], fun k => by simp [Tree.clear, empty_abs, KMap.get]⟩

/-! ingestion -/

def putAll (m : KMap) : List (Key × Option Val) → KMap
  | [] => m
  | (k, v) :: r => putAll ((k, v) :: m) r

theorem putAll_get (m : KMap) (items : List (Key × Option Val)) (hnd : (items.map (·.1)).Nodup) (k : Key) :
    (putAll m items).get k = match items.lookup k with
      | some v => v
      | none => m.get k := by
  induction items generalizing m with
  | nil => rfl
  | cons it r ih =>
    obtain ⟨k0, v0⟩ := it
    simp only [List.map_cons, List.nodup_cons] at hnd
    simp only [putAll]
    rw [ih _ hnd.2]
    by_cases hk : k = k0
    · subst hk
      have : r.lookup k = none := by
        rw [List.lookup_eq_none_iff]
        intro p hp
        simp only [bne_iff_ne, ne_eq]
        intro heq
        apply hnd.1
        rw [heq]
        exact List.mem_map.mpr ⟨p, hp, rfl⟩
      simp [this, List.lookup, KMap.get]
    · have hne : (k == k0) = false := by simpa using hk
      simp only [List.lookup, hne]
      cases r.lookup k with
      | some v => rfl
      | none => simp [KMap.get, Ne.symm hk]

theorem rotate_flush_shape (t : Tree) (w : Nat) :
    (t.rotate.flush w).active = [] ∧ (t.rotate.flush w).sealed = [] := by
  simp only [Tree.rotate, Tree.flush]
  split <;> split <;> simp_all

theorem lookup_some_mem (items : List (Key × Option Val)) (k : Key) (v : Option Val)
    (h : items.lookup k = some v) : (k, v) ∈ items := by
  induction items with
  | nil => simp [List.lookup] at h
  | cons it r ih =>
    obtain ⟨k0, v0⟩ := it
    by_cases hk : k = k0
    · subst hk; simp [List.lookup] at h; simp [h]
    · have hne : (k == k0) = false := by simpa using hk
      simp only [List.lookup, hne] at h
      exact List.mem_cons_of_mem _ (ih h)

theorem lookup_none_not_mem (items : List (Key × Option Val)) (k : Key)
    (h : items.lookup k = none) : ∀ p ∈ items, p.1 ≠ k := by
  rw [List.lookup_eq_none_iff] at h
  intro p hp heq
  have := h p hp
  simp [heq] at this

theorem ingest_trel {t : Tree} {s : Nat} {m : KMap} (h : TRel t s m) (g : Nat) (hg : s ≤ g)
    (items : List (Key × Option Val)) (hne : items ≠ []) (hnd : (items.map (·.1)).Nodup) :
    TRel (t.ingest g items) (g + 1) (putAll m items) := by
  have h1 : TRel (t.rotate.flush 0) s m := trel_flush (trel_rotate h) 0 (Nat.le_refl _)
  obtain ⟨ha, hs⟩ := rotate_flush_shape t 0
  have hing : t.ingest g items =
      { t.rotate.flush 0 with tables := (items.map fun (k, v) => itemEntry g k v) :: (t.rotate.flush 0).tables } := by
    simp [Tree.ingest, hne]
  rw [hing]
  generalize t.rotate.flush 0 = t1 at h1 ha hs
  obtain ⟨⟨ho, hd⟩, hb, habs⟩ := h1
  have hc1 : t1.comps = [] :: t1.tables := by simp [Tree.comps, ha, hs]
  have hf1 : t1.comps.flatten = t1.tables.flatten := by simp [hc1]
  rw [hf1] at hd hb
  rw [hc1] at ho
  generalize hR : (items.map fun (x : Key × Option Val) => match x with | (k, v) => itemEntry g k v) = R
  have hc2 : ({ t1 with tables := R :: t1.tables } : Tree).comps = [] :: R :: t1.tables := by
    simp [Tree.comps, ha, hs]
  have hf2 : ({ t1 with tables := R :: t1.tables } : Tree).comps.flatten = R ++ t1.tables.flatten := by
    simp [hc2]
  have hRmem : ∀ e ∈ R, e.seqno = g ∧ ∃ v, (e.key, v) ∈ items ∧ e = itemEntry g e.key v := by
    intro e he
    rw [← hR] at he
    obtain ⟨⟨k, v⟩, hp, rfl⟩ := List.mem_map.mp he
    exact ⟨itemEntry_seqno _ _ _, v, by rw [itemEntry_key]; exact hp, by rw [itemEntry_key]⟩
  have hdist : Distinct (R ++ t1.tables.flatten) := by
    rw [Distinct, List.pairwise_append]
    refine ⟨?_, hd, ?_⟩
    · rw [← hR, List.pairwise_map]
      have : items.Pairwise fun a b => a.1 ≠ b.1 := by
        have := hnd
        rw [List.Nodup, List.pairwise_map] at this
        exact this
      refine this.imp ?_
      intro a b hab hk
      obtain ⟨ka, va⟩ := a
      obtain ⟨kb, vb⟩ := b
      simp only [itemEntry_key] at hk
      exact absurd hk hab
    · intro a ha' b hb' _
      have := (hRmem a ha').1
      have := hb b hb'
      omega
  refine ⟨⟨?_, by rw [hf2]; exact hdist⟩, ?_, ?_⟩
  · rw [hc2]
    refine ⟨by simp, ?_, ho.2⟩
    intro e he d hdm e' he' _
    have := (hRmem e he).1
    have := hb e' (List.mem_flatten.mpr ⟨d, hdm, he'⟩)
    omega
  · intro e he
    rw [hf2] at he
    simp only [List.mem_append] at he
    rcases he with he | he
    · have := (hRmem e he).1; omega
    · have := hb e he; omega
  · intro k
    rw [putAll_get m items hnd k]
    simp only [Tree.absGet, hf2]
    cases hl : items.lookup k with
    | some v =>
      simp only
      have hmem := lookup_some_mem items k v hl
      have heR : itemEntry g k v ∈ R := by rw [← hR]; exact List.mem_map.mpr ⟨(k, v), hmem, rfl⟩
      have : newestIn none k (R ++ t1.tables.flatten) = some (itemEntry g k v) := by
        rw [newestIn_iff none k _ hdist]
        refine ⟨by simp [heR], itemEntry_key _ _ _, rfl, fun d hdm _ _ => ?_⟩
        rw [itemEntry_seqno]
        simp only [List.mem_append] at hdm
        rcases hdm with hdm | hdm
        · exact Nat.le_of_eq (hRmem d hdm).1
        · have := hb d hdm; omega
      rw [this]
      simp [itemEntry_toVal]
    | none =>
      simp only
      have hnot := lookup_none_not_mem items k hl
      rw [← habs k]
      simp only [Tree.absGet, hf1]
      congr 1
      symm
      apply newestIn_sub none k _ _ hdist hd (fun x hx => by simp [hx])
      intro e he
      have := he.1
      simp only [List.mem_append] at this
      rcases this with hm | hm
      · obtain ⟨_, v, hv, _⟩ := hRmem e hm
        exact absurd he.2.1 (hnot (e.key, v) hv)
      · exact hm

end Fjall.Mvcc
