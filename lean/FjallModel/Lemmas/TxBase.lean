import FjallModel.Tx.Base
import FjallModel.Lemmas.Spec
namespace Fjall.Tx
open Fjall Fjall.Spec

def ownView (l : List TEntry) (base : KMap) (ks : KsId) : KMap :=
  ((l.filter fun e => e.ks = ks).map fun e => (e.key, e.toVal)) ++ base

def ownGet (l : List TEntry) (base : KMap) (ks : KsId) (k : Key) : Option Val :=
  match l.find? fun e => e.ks = ks ∧ e.key = k with
  | some e => e.toVal
  | none => base.get k

theorem ownView_get (l : List TEntry) (base : KMap) (ks : KsId) (k : Key) :
    (ownView l base ks).get k = ownGet l base ks k := by
  induction l with
  | nil => simp [ownView, ownGet]
  | cons e r ih =>
    unfold ownView ownGet at *
    by_cases hks : e.ks = ks
    · by_cases hk : e.key = k
      · rw [List.filter_cons_of_pos (by simp [hks]), List.find?_cons_of_pos (by simp [hks, hk])]
        simp [KMap.get, hk]
      · rw [List.filter_cons_of_pos (by simp [hks]), List.find?_cons_of_neg (by simp [hk])]
        simp only [List.map_cons, List.cons_append, KMap.get, hk, if_false]
        exact ih
    · rw [List.filter_cons_of_neg (by simp [hks]), List.find?_cons_of_neg (by simp [hks])]
      exact ih

theorem get_eq_view (tx : BaseTx) (ks : KsId) (k : Key) : tx.get ks k = (tx.view ks).get k := by
  have := ownView_get tx.mem (tx.snap ks) ks k
  simp only [ownView, ownGet] at this
  simp only [BaseTx.get, BaseTx.newestOwn, BaseTx.view]
  exact this.symm

/-- the relation between a transaction and the reference maps -/
def R (tx : BaseTx) (m : KsId → KMap) : Prop := ∀ ks, (tx.view ks).Equiv (m ks)

theorem view_push_same (tx : BaseTx) (ks : KsId) (k : Key) (kind : TKind) (v : Val) :
    (tx.push ks k kind v).view ks = (k, (⟨ks, k, tx.seqno, kind, v⟩ : TEntry).toVal) :: tx.view ks := by
  simp [BaseTx.push, BaseTx.view, List.filter]

theorem view_push_other (tx : BaseTx) (ks ks' : KsId) (h : ks ≠ ks') (k : Key) (kind : TKind) (v : Val) :
    (tx.push ks k kind v).view ks' = tx.view ks' := by
  simp [BaseTx.push, BaseTx.view, List.filter, h]

theorem R_push (tx : BaseTx) (m : KsId → KMap) (h : R tx m) (ks : KsId) (k : Key) (kind : TKind)
    (v : Val) (nv : Option Val) (hnv : (⟨ks, k, tx.seqno, kind, v⟩ : TEntry).toVal = nv) :
    R (tx.push ks k kind v) (fun x => if x = ks then (k, nv) :: m ks else m x) := by
  intro ks'
  by_cases hk : ks' = ks
  · subst hk
    rw [view_push_same, hnv]
    intro k'
    simp only [KMap.get, if_true]
    split
    · rfl
    · exact h ks' k'
  · rw [view_push_other _ _ _ (Ne.symm hk)]
    simp only [hk, if_false]
    exact h ks'

/-- replacing a keyspace's reference map by an extensionally equal one keeps `R` -/
theorem R_congr (tx : BaseTx) (m m' : KsId → KMap) (h : R tx m) (he : ∀ ks, (m ks).Equiv (m' ks)) :
    R tx m' := fun ks => (h ks).trans (he ks)

theorem equiv_put_same (m : KMap) (k : Key) (v : Val) (h : m.get k = some v) :
    m.Equiv (m.put k v) := by
  intro k'
  simp only [KMap.get_put]
  split
  · rename_i hk; subst hk; exact h
  · rfl

theorem equiv_del_absent (m : KMap) (k : Key) (h : m.get k = none) : m.Equiv (m.del k) := by
  intro k'
  simp only [KMap.get_del]
  split
  · rename_i hk; subst hk; exact h
  · rfl

theorem step_refines (tx : BaseTx) (m : KsId → KMap) (h : R tx m) (op : TOp) :
    (step tx op).2 = (refStep m op).2 ∧ R (step tx op).1 (refStep m op).1 := by
  have hget : ∀ ks k, tx.get ks k = (m ks).get k := fun ks k => by rw [get_eq_view]; exact h ks k
  cases op with
  | get ks k => exact ⟨by simp [step, refStep, hget], h⟩
  | contains ks k => exact ⟨by simp [step, refStep, BaseTx.containsKey, hget], h⟩
  | sizeOf ks k => exact ⟨by simp [step, refStep, BaseTx.sizeOf, hget], h⟩
  | scan ks lo hi => exact ⟨by simp [step, refStep, range_congr (h ks)], h⟩
  | insert ks k v =>
    refine ⟨rfl, ?_⟩
    exact R_push tx m h ks k .value v (some v) (by simp [TEntry.toVal])
  | remove ks k =>
    refine ⟨rfl, ?_⟩
    exact R_push tx m h ks k .tomb [] none (by simp [TEntry.toVal])
  | removeWeak ks k =>
    refine ⟨rfl, ?_⟩
    exact R_push tx m h ks k .weakTomb [] none (by simp [TEntry.toVal])
  | fetchUpdate ks k f =>
    simp only [step, refStep, BaseTx.fetchUpdate, hget]
    refine ⟨by first | trivial | (split <;> rfl), ?_⟩
    cases hf : f ((m ks).get k) with
    | some v =>
      simp only
      split
      · rename_i hprev
        -- unchanged value: nothing written
        apply R_congr tx m _ h
        intro ks'
        by_cases hk : ks' = ks
        · subst hk; simp only [if_true]; exact equiv_put_same _ _ _ hprev
        · simp [hk, KMap.Equiv.refl]
      · exact R_push tx m h ks k .value v (some v) (by simp [TEntry.toVal])
    | none =>
      simp only
      split
      · exact R_push tx m h ks k .tomb [] none (by simp [TEntry.toVal])
      · rename_i hnone
        apply R_congr tx m _ h
        intro ks'
        by_cases hk : ks' = ks
        · subst hk; simp only [if_true]
          exact equiv_del_absent _ _ (by simpa using hnone)
        · simp [hk, KMap.Equiv.refl]
  | updateFetch ks k f =>
    simp only [step, refStep, BaseTx.updateFetch, BaseTx.fetchUpdate, hget]
    refine ⟨by first | trivial | (split <;> rfl), ?_⟩
    cases hf : f ((m ks).get k) with
    | some v =>
      simp only
      split
      · rename_i hprev
        apply R_congr tx m _ h
        intro ks'
        by_cases hk : ks' = ks
        · subst hk; simp only [if_true]; exact equiv_put_same _ _ _ hprev
        · simp [hk, KMap.Equiv.refl]
      · exact R_push tx m h ks k .value v (some v) (by simp [TEntry.toVal])
    | none =>
      simp only
      split
      · exact R_push tx m h ks k .tomb [] none (by simp [TEntry.toVal])
      · rename_i hnone
        apply R_congr tx m _ h
        intro ks'
        by_cases hk : ks' = ks
        · subst hk; simp only [if_true]
          exact equiv_del_absent _ _ (by simpa using hnone)
        · simp [hk, KMap.Equiv.refl]
  | take ks k =>
    simp only [step, refStep, BaseTx.take, BaseTx.fetchUpdate, hget]
    refine ⟨by first | trivial | rfl, ?_⟩
    split
    · exact R_push tx m h ks k .tomb [] none (by simp [TEntry.toVal])
    · rename_i hnone
      apply R_congr tx m _ h
      intro ks'
      by_cases hk : ks' = ks
      · subst hk; simp only [if_true]
        exact equiv_del_absent _ _ (by simpa using hnone)
      · simp [hk, KMap.Equiv.refl]

theorem run_refines (tx : BaseTx) (m : KsId → KMap) (h : R tx m) (ops : List TOp) :
    (run tx ops).2 = (refRun m ops).2 ∧ R (run tx ops).1 (refRun m ops).1 := by
  induction ops generalizing tx m with
  | nil => exact ⟨rfl, h⟩
  | cons o os ih =>
    obtain ⟨h1, h2⟩ := step_refines tx m h o
    obtain ⟨h3, h4⟩ := ih _ _ h2
    simp only [run, refRun]
    exact ⟨by rw [h1, h3], h4⟩

/-! commit -/

theorem find_filter_ne (l : List TEntry) (e : TEntry) (ks : KsId) (k : Key)
    (h : ¬ (e.ks = ks ∧ e.key = k)) :
    (l.filter fun x => ¬ (x.ks = e.ks ∧ x.key = e.key)).find? (fun x => x.ks = ks ∧ x.key = k)
      = l.find? (fun x => x.ks = ks ∧ x.key = k) := by
  induction l with
  | nil => rfl
  | cons x r ih =>
    by_cases hx : x.ks = e.ks ∧ x.key = e.key
    · have hn : ¬ (x.ks = ks ∧ x.key = k) := by
        intro hxk; apply h; exact ⟨hx.1 ▸ hxk.1, hx.2 ▸ hxk.2⟩
      rw [List.filter_cons_of_neg (by simp [hx]), List.find?_cons_of_neg (by simpa using hn)]
      exact ih
    · by_cases hxk : x.ks = ks ∧ x.key = k
      · rw [List.filter_cons_of_pos (by simp; by_cases h1 : x.ks = e.ks <;> by_cases h2 : x.key = e.key <;> simp_all), List.find?_cons_of_pos (by simpa using hxk),
          List.find?_cons_of_pos (by simpa using hxk)]
      · rw [List.filter_cons_of_pos (by simp; by_cases h1 : x.ks = e.ks <;> by_cases h2 : x.key = e.key <;> simp_all), List.find?_cons_of_neg (by simpa using hxk),
          List.find?_cons_of_neg (by simpa using hxk)]
        exact ih

theorem commitItems_find (l : List TEntry) (ks : KsId) (k : Key) :
    (commitItems l).find? (fun x => x.ks = ks ∧ x.key = k) = l.find? (fun x => x.ks = ks ∧ x.key = k) := by
  induction l with
  | nil => rfl
  | cons e r ih =>
    simp only [commitItems]
    by_cases h : e.ks = ks ∧ e.key = k
    · rw [List.find?_cons_of_pos (by simpa using h), List.find?_cons_of_pos (by simpa using h)]
    · rw [List.find?_cons_of_neg (by simpa using h), List.find?_cons_of_neg (by simpa using h),
        find_filter_ne _ _ _ _ h, ih]

theorem commitItems_nodup (l : List TEntry) :
    ((commitItems l).map fun e => (e.ks, e.key)).Nodup := by
  induction l with
  | nil => simp [commitItems]
  | cons e r ih =>
    simp only [commitItems, List.map_cons, List.nodup_cons]
    constructor
    · intro hmem
      simp only [List.mem_map, List.mem_filter] at hmem
      obtain ⟨x, ⟨_, hx⟩, hxe⟩ := hmem
      simp at hx hxe
      rcases hx with hx | hx
      · exact hx hxe.1
      · exact hx hxe.2
    · exact (ih.sublist ((List.filter_sublist).map _))

end Fjall.Tx
