import FjallModel.Journal.Entry
namespace Fjall.Journal
open Fjall P

theorem decodeItemBody_local (c : Codec) : Local (decodeItemBody c) := by
  unfold decodeItemBody
  refine local_bind local_byte fun vt => ?_
  refine local_bind (local_ofOption _) fun kind => ?_
  refine local_bind local_byte fun cb => ?_
  refine local_bind (local_ofOption _) fun comp => ?_
  refine local_bind (local_nat _) fun ks => ?_
  refine local_bind (local_nat _) fun kl => ?_
  refine local_bind (local_nat _) fun vl => ?_
  refine local_bind (local_nat _) fun sl => ?_
  refine local_bind (local_take _) fun key => ?_
  refine local_bind (local_take _) fun stored => ?_
  cases comp
  · show Local (if _ then _ else _)
    split
    · exact local_pure _
    · exact local_fail
  · exact local_bind (local_ofOption _) fun _ => local_pure _

theorem decodeEntry_local (p : Params) (c : Codec) : Local (decodeEntry p c) := by
  unfold decodeEntry
  refine local_bind local_byte fun t => ?_
  split
  · exact local_bind (local_nat _) fun _ => local_bind (local_nat _) fun _ => local_pure _
  split
  · exact decodeItemBody_local c
  split
  · refine local_bind (local_nat _) fun _ => local_bind (local_take _) fun m => ?_
    split
    · exact local_pure _
    · exact local_fail
  split
  · exact local_bind (local_nat _) fun _ => local_pure _
  · exact local_fail

@[simp] theorem bind_byte_cons (b : UInt8) (r : Bytes) (g : UInt8 → P β) :
    bind byte g (b :: r) = g b r := rfl

@[simp] theorem bind_nat_leN (k n : Nat) (r : Bytes) (g : Nat → P β) (h : n < 256 ^ k) :
    bind (nat k) g (leN k n ++ r) = g n r := by
  simp [P.bind, P.nat, rdN_leN k n r h]

@[simp] theorem bind_take_append (l r : Bytes) (g : Bytes → P β) :
    bind (take l.length) g (l ++ r) = g l r := by
  simp [P.bind, P.take]

@[simp] theorem bind_ofOption_some (a : α) (g : α → P β) (x : Bytes) :
    bind (ofOption (some a)) g x = g a x := rfl

@[simp] theorem bind_pure (a : α) (g : α → P β) (x : Bytes) :
    bind (pure a) g x = g a x := rfl

theorem decode_encode (p : Params) (c : Codec) (hp : p.Valid) (hc : c.Law) (e : Entry)
    (he : e.WF c) (rest : Bytes) :
    decodeEntry p c (encodeEntry p c e ++ rest) = some (e, rest) := by
  obtain ⟨h12, h13, h14, h23, h24, h34, _⟩ := hp
  cases e with
  | start n s =>
    obtain ⟨hn, hs⟩ := he
    simp only [encodeEntry, decodeEntry, List.append_assoc, List.cons_append, List.nil_append,
      bind_byte_cons, if_true]
    rw [bind_nat_leN _ _ _ _ (by simpa using hn), bind_nat_leN _ _ _ _ (by simpa using hs)]
    rfl
  | fin s =>
    have hs : s < 2^64 := he
    have e1 : p.tagEnd ≠ p.tagStart := fun h => h13 h.symm
    have e2 : p.tagEnd ≠ p.tagItem := fun h => h23 h.symm
    simp only [encodeEntry, decodeEntry, List.append_assoc, List.cons_append, List.nil_append,
      bind_byte_cons, if_neg e1, if_neg e2, if_true]
    rw [bind_nat_leN _ _ _ _ (by simpa using hs), bind_take_append]
    simp [P.pure]
  | clear ks =>
    have hs : ks < 2^64 := he
    have e1 : p.tagClear ≠ p.tagStart := fun h => h14 h.symm
    have e2 : p.tagClear ≠ p.tagItem := fun h => h24 h.symm
    have e3 : p.tagClear ≠ p.tagEnd := fun h => h34 h.symm
    simp only [encodeEntry, decodeEntry, List.append_assoc, List.cons_append, List.nil_append,
      bind_byte_cons, if_neg e1, if_neg e2, if_neg e3, if_true]
    rw [bind_nat_leN _ _ _ _ (by simpa using hs)]
    rfl
  | item i =>
    obtain ⟨hks, hkl, hvl, hsl⟩ := he
    have e1 : p.tagItem ≠ p.tagStart := fun h => h12 h.symm
    simp only [encodeEntry, encodeItem, decodeEntry, decodeItemBody, List.append_assoc,
      List.cons_append, List.nil_append, bind_byte_cons, if_neg e1, if_true,
      Kind.ofByte_toByte, Comp.ofByte_toByte, bind_ofOption_some]
    rw [bind_nat_leN _ _ _ _ (by simpa using hks), bind_nat_leN _ _ _ _ (by simpa using hkl),
      bind_nat_leN _ _ _ _ (by simpa using hvl), bind_nat_leN _ _ _ _ (by simpa using hsl),
      bind_take_append, bind_take_append]
    obtain ⟨ks, key, val, kind, comp⟩ := i
    cases comp
    · simp [P.pure, Item.stored]
    · simp only [Item.stored]
      rw [hc val]
      rfl

theorem decodeEntry_nil (p : Params) (c : Codec) : decodeEntry p c [] = none := rfl

/-- a successful decode consumes at least one byte -/
theorem decodeEntry_lt (p : Params) (c : Codec) (x : Bytes) (e : Entry) (r : Bytes)
    (h : decodeEntry p c x = some (e, r)) : r.length < x.length := by
  obtain ⟨pre, hx, hpre⟩ := decodeEntry_local p c x e r h
  cases pre with
  | nil =>
    have := hpre []
    simp [decodeEntry_nil] at this
  | cons b pre => rw [hx]; simp; omega

/-- zero bytes never decode (tag 0 is not a tag) -/
theorem decodeEntry_zeros (p : Params) (c : Codec) (hp : p.Valid) (m : Nat) :
    decodeEntry p c (zeros m) = none := by
  obtain ⟨_, _, _, _, _, _, z1, z2, z3, z4, _⟩ := hp
  cases m with
  | zero => rfl
  | succ m =>
    simp only [zeros, List.replicate_succ, decodeEntry, bind_byte_cons]
    rw [if_neg (fun h => z1 h.symm), if_neg (fun h => z2 h.symm), if_neg (fun h => z3 h.symm),
      if_neg (fun h => z4 h.symm)]
    rfl

def Entry.tag (p : Params) : Entry → UInt8
  | .start .. => p.tagStart
  | .item .. => p.tagItem
  | .fin .. => p.tagEnd
  | .clear .. => p.tagClear

/-- the first byte of the input is the tag of whatever a successful decode yields -/
theorem decodeEntry_tag (p : Params) (c : Codec) (t : UInt8) (y : Bytes) (e : Entry) (r : Bytes)
    (h : decodeEntry p c (t :: y) = some (e, r)) : e.tag p = t := by
  simp only [decodeEntry, bind_byte_cons] at h
  split at h
  · rename_i ht
    subst ht
    refine (yields_bind (Q := fun e => e.tag p = p.tagStart) fun _ => yields_bind fun _ =>
      yields_pure rfl) _ _ _ h
  split at h
  · rename_i ht
    subst ht
    refine (?_ : Yields (decodeItemBody c) (fun e => e.tag p = p.tagItem)) _ _ _ h
    unfold decodeItemBody
    repeat (refine yields_bind fun _ => ?_)
    split
    · split
      · exact yields_pure rfl
      · exact yields_fail
    · exact yields_bind fun _ => yields_pure rfl
  split at h
  · rename_i ht
    subst ht
    refine (yields_bind (Q := fun e => e.tag p = p.tagEnd) fun _ => yields_bind fun _ => ?_) _ _ _ h
    split
    · exact yields_pure rfl
    · exact yields_fail
  split at h
  · rename_i ht
    subst ht
    exact (yields_bind (Q := fun e => e.tag p = p.tagClear) fun _ => yields_pure rfl) _ _ _ h
  · simp [P.fail] at h

/-- inversion for End markers: the bytes consumed are exactly the encoding -/
theorem decodeEntry_fin_inv (p : Params) (c : Codec) (x : Bytes) (s : Nat) (r : Bytes)
    (h : decodeEntry p c x = some (.fin s, r)) :
    x = encodeEntry p c (.fin s) ++ r := by
  cases x with
  | nil => simp [decodeEntry_nil] at h
  | cons t y =>
    have ht := decodeEntry_tag p c t y _ r h
    simp only [Entry.tag] at ht
    subst ht
    simp only [decodeEntry, bind_byte_cons] at h
    split at h
    · rename_i h1
      have := (yields_bind (Q := fun e => ∃ n s, e = Entry.start n s) fun _ => yields_bind fun _ =>
        yields_pure ⟨_, _, rfl⟩) _ _ _ h
      obtain ⟨_, _, h⟩ := this; cases h
    split at h
    · rename_i h2
      have : Yields (decodeItemBody c) (fun e => ∃ i, e = Entry.item i) := by
        unfold decodeItemBody
        repeat (refine yields_bind fun _ => ?_)
        split
        · split
          · exact yields_pure ⟨_, rfl⟩
          · exact yields_fail
        · exact yields_bind fun _ => yields_pure ⟨_, rfl⟩
      obtain ⟨_, h⟩ := this _ _ _ h; cases h
    rw [if_pos trivial] at h
    simp only [P.bind, P.nat] at h
    split at h
    · simp at h
    rename_i n r1 hn
    obtain ⟨hy, _⟩ := rdN_inv _ _ _ _ hn
    split at h
    · simp at h
    rename_i m r2 hm
    simp only [P.take] at hm
    split at hm
    · simp at hm
      obtain ⟨rfl, rfl⟩ := hm
      split at h
      · rename_i hmag
        simp [P.pure] at h
        obtain ⟨rfl, rfl⟩ := h
        simp only [encodeEntry, List.cons_append, List.nil_append, List.append_assoc]
        rw [hy]
        conv => rhs; rw [← hmag]
        simp
        rw [Nat.min_eq_left (by assumption), List.take_append_drop]
      · simp [P.fail] at h
    · simp at hm

end Fjall.Journal
