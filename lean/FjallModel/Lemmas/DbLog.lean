import FjallModel.Db.Log
import FjallModel.Lemmas.Spec
namespace Fjall.Db
open Fjall Fjall.Spec

/-! ### what a list of put/del operations does to one key -/

def LOp.key? : LOp → Option Key
  | .put k _ => some k
  | .del k => some k
  | .clear => none

def LOp.isClear : LOp → Bool
  | .clear => true
  | _ => false

/-- the effect of the last operation in `ops` that touches `k` (`none` = no operation touches it) -/
def lastOn (k : Key) : List LOp → Option (Option Val)
  | [] => none
  | op :: r => match lastOn k r with
    | some x => some x
    | none => match op with
      | .put k' v => if k' = k then some (some v) else none
      | .del k' => if k' = k then some none else none
      | .clear => none

theorem applyOp_get (m : KMap) (op : LOp) (hc : op.isClear = false) (k : Key) :
    (applyOp m op).get k = match (lastOn k [op]) with | some x => x | none => m.get k := by
  cases op with
  | put k' v => simp only [applyOp, KMap.get_put, lastOn]; split <;> simp_all
  | del k' => simp only [applyOp, KMap.get_del, lastOn]; split <;> simp_all
  | clear => simp [LOp.isClear] at hc

theorem lastOn_append (k : Key) (a b : List LOp) :
    lastOn k (a ++ b) = match lastOn k b with | some x => some x | none => lastOn k a := by
  induction a with
  | nil => simp [lastOn]; cases lastOn k b <;> rfl
  | cons op r ih =>
    simp only [List.cons_append, lastOn, ih]
    cases lastOn k b with
    | some x => rfl
    | none => rfl

theorem applyAll_get (m : KMap) (ops : List LOp) (hc : ∀ op ∈ ops, op.isClear = false) (k : Key) :
    (applyAll m ops).get k = match lastOn k ops with | some x => x | none => m.get k := by
  induction ops generalizing m with
  | nil => rfl
  | cons op r ih =>
    simp only [applyAll, List.foldl_cons]
    have := ih (applyOp m op) (fun o ho => hc o (by simp [ho]))
    simp only [applyAll] at this
    rw [this]
    simp only [lastOn]
    cases hl : lastOn k r with
    | some x => rfl
    | none =>
      simp only
      have h1 := applyOp_get m op (hc op (by simp)) k
      simp only [lastOn] at h1
      exact h1

/-- **Replay is idempotent**: re-applying a clear-free segment that is already reflected, followed
    by everything after it, changes nothing (last writer wins). -/
theorem replay_idempotent (m : KMap) (z y1 rest : List LOp)
    (h1 : ∀ op ∈ z ++ y1 ++ rest, op.isClear = false) :
    (applyAll m (z ++ y1 ++ (y1 ++ rest))).Equiv (applyAll m (z ++ y1 ++ rest)) := by
  intro k
  have hc1 : ∀ op ∈ z ++ y1 ++ (y1 ++ rest), op.isClear = false := by
    intro op hop
    simp only [List.mem_append] at hop
    apply h1
    simp only [List.mem_append]
    rcases hop with (h | h) | h | h
    · left; left; exact h
    · left; right; exact h
    · left; right; exact h
    · right; exact h
  rw [applyAll_get m _ hc1 k, applyAll_get m _ h1 k]
  simp only [lastOn_append]
  cases lastOn k rest <;> cases lastOn k y1 <;> rfl

theorem applyAll_append (m : KMap) (a b : List LOp) : applyAll m (a ++ b) = applyAll (applyAll m a) b := by
  simp [applyAll]

/-- a `clear` wipes whatever came before -/
theorem applyAll_after_clear (m : KMap) (a b : List LOp) :
    applyAll m (a ++ [LOp.clear] ++ b) = applyAll [] b := by
  simp [applyAll, applyOp]

end Fjall.Db

namespace Fjall.Db
open Fjall Fjall.Spec

/-! ### replaying a journal into one keyspace -/

def replayKs (k : KsL) (recs : List Rec) : KsL := recs.foldl (fun k r => stepKs r k) k

theorem replayRec_eq_map (kss : List KsL) (r : Rec) : replayRec kss r = kss.map (stepKs r) := rfl

theorem stepKs_id (r : Rec) (k : KsL) : (stepKs r k).id = k.id := by
  unfold stepKs applyRec
  split
  · cases r.op <;> rfl
  · rfl

theorem replayKs_id (k : KsL) (recs : List Rec) : (replayKs k recs).id = k.id := by
  induction recs generalizing k with
  | nil => rfl
  | cons r rs ih => simp only [replayKs, List.foldl_cons] at ih ⊢; rw [ih, stepKs_id]

theorem foldl_replayRec (kss : List KsL) (recs : List Rec) :
    recs.foldl replayRec kss = kss.map fun k => replayKs k recs := by
  induction recs generalizing kss with
  | nil => simp [replayKs]
  | cons r rs ih =>
    simp only [List.foldl_cons, replayRec_eq_map, ih, List.map_map]
    rfl

def opsOf (rs : List Rec) : List LOp := rs.map (·.op)

theorem abs_eq (k : KsL) : k.abs = applyAll [] (opsOf (k.tables ++ k.sealedMem ++ k.mem)) := rfl

/-- replaying records = applying their operations (of this keyspace) to the logical content -/
theorem replayKs_abs (k : KsL) (recs : List Rec) :
    (replayKs k recs).abs = applyAll k.abs (opsOf (recs.filter fun r => r.ks = k.id)) := by
  induction recs generalizing k with
  | nil => simp [replayKs, opsOf, applyAll]
  | cons r rs ih =>
    simp only [replayKs, List.foldl_cons] at ih ⊢
    rw [ih (stepKs r k), stepKs_id]
    by_cases hr : r.ks = k.id
    · have hf : (r :: rs).filter (fun r => r.ks = k.id) = r :: rs.filter (fun r => r.ks = k.id) := by
        simp [List.filter, hr]
      rw [hf]
      simp only [opsOf, List.map_cons, applyAll, List.foldl_cons]
      congr 1
      simp only [stepKs, applyRec, hr.symm, if_true]
      cases hop : r.op with
      | clear => simp [KsL.abs, applyAll, applyOp]
      | put kk v =>
        simp only [KsL.abs, ← List.append_assoc, List.map_append, List.map_cons, List.map_nil, hop]
        simp [applyAll]
      | del kk =>
        simp only [KsL.abs, ← List.append_assoc, List.map_append, List.map_cons, List.map_nil, hop]
        simp [applyAll]
    · have hf : (r :: rs).filter (fun r => r.ks = k.id) = rs.filter (fun r => r.ks = k.id) := by
        simp [List.filter, hr]
      rw [hf]
      have : stepKs r k = k := by simp [stepKs, Ne.symm hr]
      rw [this]

/-- coverage: the journal records of a keyspace end with everything it holds in memory, and either
    contain a clear followed by *everything* since, or are clear-free and overlap the tables in a
    suffix -/
def Cov (k : KsL) (rk : List Rec) : Prop :=
  (∀ r ∈ k.tables ++ k.sealedMem ++ k.mem, r.op.isClear = false) ∧
  ((∃ A c, rk = A ++ [c] ++ (k.tables ++ k.sealedMem ++ k.mem) ∧ c.op = .clear) ∨
   ((∀ r ∈ rk, r.op.isClear = false) ∧ ∃ Z Y1, k.tables = Z ++ Y1 ∧ rk = Y1 ++ k.sealedMem ++ k.mem))

/-- **recovery of one keyspace reproduces its content** -/
theorem recover_ks_abs (k : KsL) (recs : List Rec) (h : Cov k (recs.filter fun r => r.ks = k.id)) :
    (replayKs { k with sealedMem := [], mem := [] } recs).abs.Equiv k.abs := by
  rw [replayKs_abs]
  obtain ⟨hcf, hcase⟩ := h
  simp only
  generalize (recs.filter fun r => r.ks = k.id) = rk at hcase
  have habs0 : ({ k with sealedMem := [], mem := [] } : KsL).abs = applyAll [] (opsOf k.tables) := by
    simp [KsL.abs, opsOf]
  rw [habs0, ← applyAll_append]
  rcases hcase with ⟨A, c, hrk, hc⟩ | ⟨hnc, Z, Y1, ht, hrk⟩
  · rw [hrk]
    have : opsOf k.tables ++ opsOf (A ++ [c] ++ (k.tables ++ k.sealedMem ++ k.mem))
        = (opsOf k.tables ++ opsOf A) ++ [LOp.clear] ++ opsOf (k.tables ++ k.sealedMem ++ k.mem) := by
      simp [opsOf, hc]
    rw [this, applyAll_after_clear, abs_eq]
    exact KMap.Equiv.refl _
  · rw [hrk, abs_eq, ht]
    have e1 : opsOf (Z ++ Y1) ++ opsOf (Y1 ++ k.sealedMem ++ k.mem)
        = opsOf Z ++ opsOf Y1 ++ (opsOf Y1 ++ opsOf (k.sealedMem ++ k.mem)) := by
      simp [opsOf]
    have e2 : opsOf (Z ++ Y1 ++ k.sealedMem ++ k.mem) = opsOf Z ++ opsOf Y1 ++ opsOf (k.sealedMem ++ k.mem) := by
      simp [opsOf]
    rw [e1, e2]
    apply replay_idempotent
    intro op hop
    rw [← e2] at hop
    obtain ⟨r, hr, rfl⟩ := List.mem_map.mp hop
    apply hcf r
    rw [ht]
    simpa [List.append_assoc] using hr

end Fjall.Db

namespace Fjall.Db
open Fjall Fjall.Spec

theorem stepKs_other (r : Rec) (k : KsL) (h : r.ks ≠ k.id) : stepKs r k = k := by
  simp [stepKs, Ne.symm h]

/-- appending a record to the journal and applying it keeps coverage -/
theorem cov_step (k : KsL) (rk : List Rec) (r : Rec) (hr : r.ks = k.id) (h : Cov k rk) :
    Cov (stepKs r k) (rk ++ [r]) := by
  obtain ⟨hcf, hcase⟩ := h
  simp only [stepKs, applyRec, hr.symm, if_true]
  cases hop : r.op with
  | clear =>
    refine ⟨by simp, Or.inl ⟨rk, r, by simp, hop⟩⟩
  | put kk v =>
    simp only
    refine ⟨?_, ?_⟩
    · intro x hx
      simp only [List.mem_append, List.mem_cons, List.mem_nil_iff, or_false] at hx
      rcases hx with (hx | hx) | hx | rfl
      · exact hcf x (by simp [hx])
      · exact hcf x (by simp [hx])
      · exact hcf x (by simp [hx])
      · simp [hop, LOp.isClear]
    · rcases hcase with ⟨A, c, hrk, hc⟩ | ⟨hnc, Z, Y1, ht, hrk⟩
      · left; exact ⟨A, c, by rw [hrk]; simp, hc⟩
      · right
        refine ⟨?_, Z, Y1, ht, by rw [hrk]; simp⟩
        intro x hx
        simp only [List.mem_append, List.mem_cons, List.mem_nil_iff, or_false] at hx
        rcases hx with hx | rfl
        · exact hnc x hx
        · simp [hop, LOp.isClear]
  | del kk =>
    simp only
    refine ⟨?_, ?_⟩
    · intro x hx
      simp only [List.mem_append, List.mem_cons, List.mem_nil_iff, or_false] at hx
      rcases hx with (hx | hx) | hx | rfl
      · exact hcf x (by simp [hx])
      · exact hcf x (by simp [hx])
      · exact hcf x (by simp [hx])
      · simp [hop, LOp.isClear]
    · rcases hcase with ⟨A, c, hrk, hc⟩ | ⟨hnc, Z, Y1, ht, hrk⟩
      · left; exact ⟨A, c, by rw [hrk]; simp, hc⟩
      · right
        refine ⟨?_, Z, Y1, ht, by rw [hrk]; simp⟩
        intro x hx
        simp only [List.mem_append, List.mem_cons, List.mem_nil_iff, or_false] at hx
        rcases hx with hx | rfl
        · exact hnc x hx
        · simp [hop, LOp.isClear]

theorem cov_replay (k : KsL) (rk : List Rec) (recs : List Rec) (h : Cov k rk) :
    Cov (replayKs k recs) (rk ++ recs.filter fun r => r.ks = k.id) := by
  induction recs generalizing k rk with
  | nil => simpa [replayKs] using h
  | cons r rs ih =>
    simp only [replayKs, List.foldl_cons]
    by_cases hr : r.ks = k.id
    · have := ih (stepKs r k) (rk ++ [r]) (cov_step k rk r hr h)
      simp only [replayKs, stepKs_id] at this
      simpa [List.filter, hr] using this
    · rw [stepKs_other r k hr]
      have := ih k rk h
      simp only [replayKs] at this
      simpa [List.filter, hr] using this

theorem cov_rotate (k : KsL) (rk : List Rec) (h : Cov k rk) : Cov (sealMem k) rk := by
  unfold sealMem
  split
  · exact h
  · obtain ⟨hcf, hcase⟩ := h
    refine ⟨by simpa [List.append_assoc] using hcf, ?_⟩
    rcases hcase with ⟨A, c, hrk, hc⟩ | ⟨hnc, Z, Y1, ht, hrk⟩
    · left; exact ⟨A, c, by simpa [List.append_assoc] using hrk, hc⟩
    · right; exact ⟨hnc, Z, Y1, ht, by simpa [List.append_assoc] using hrk⟩

theorem cov_flushSealed (k : KsL) (rk : List Rec) (_p : Option Nat) (h : Cov k rk) :
    Cov k.flushSealed rk := by
  unfold KsL.flushSealed
  obtain ⟨hcf, hcase⟩ := h
  refine ⟨by simpa [List.append_assoc] using hcf, ?_⟩
  rcases hcase with ⟨A, c, hrk, hc⟩ | ⟨hnc, Z, Y1, ht, hrk⟩
  · left; exact ⟨A, c, by simpa [List.append_assoc] using hrk, hc⟩
  · right; exact ⟨hnc, Z, Y1 ++ k.sealedMem, by simp [ht, List.append_assoc], by simpa [List.append_assoc] using hrk⟩

theorem cov_persisted (k : KsL) (rk : List Rec) (p : Option Nat) (h : Cov k rk) :
    Cov { k with persisted := p } rk := h

/-- the state a keyspace is in after recovery is covered by the same journal again
    (so any number of reopen cycles is fine) -/
theorem cov_recovered (k : KsL) (recs : List Rec) (h : Cov k (recs.filter fun r => r.ks = k.id)) :
    Cov (replayKs { k with sealedMem := [], mem := [] } recs) (recs.filter fun r => r.ks = k.id) := by
  have h0 : Cov ({ k with sealedMem := [], mem := [] } : KsL) [] := by
    refine ⟨?_, Or.inr ⟨by simp, k.tables, [], by simp, by simp⟩⟩
    intro r hr
    simp at hr
    exact h.1 r (by simp [hr])
  have := cov_replay _ [] recs h0
  simpa using this

end Fjall.Db
