import FjallModel.Db.Log
import FjallModel.Lemmas.Spec
namespace Fjall.Db
open Fjall Fjall.Spec

/-! ### what a list of put/del operations does to one key -/

def LOp.key? : LOp → Option Key
  | .put k _ => some k
  | .del k => some k
  | .clear => none

def LOp.isClear : LOp → Bool
  | .clear => true
  | _ => false

theorem applyOp_get (m : KMap) (op : LOp) (hc : op.isClear = false) (k : Key) :
    (applyOp m op).get k = match (lastOn k [op]) with | some x => x | none => m.get k := by
  cases op with
  | put k' v => simp only [applyOp, KMap.get_put, lastOn]; split <;> simp_all
  | del k' => simp only [applyOp, KMap.get_del, lastOn]; split <;> simp_all
  | clear => simp [LOp.isClear] at hc

theorem lastOn_append (k : Key) (a b : List LOp) :
    lastOn k (a ++ b) = match lastOn k b with | some x => some x | none => lastOn k a := by
  induction a with
  | nil => simp [lastOn]; cases lastOn k b <;> rfl
  | cons op r ih =>
    simp only [List.cons_append, lastOn, ih]
    cases lastOn k b with
    | some x => rfl
    | none => rfl

theorem applyAll_get (m : KMap) (ops : List LOp) (hc : ∀ op ∈ ops, op.isClear = false) (k : Key) :
    (applyAll m ops).get k = match lastOn k ops with | some x => x | none => m.get k := by
  induction ops generalizing m with
  | nil => rfl
  | cons op r ih =>
    simp only [applyAll, List.foldl_cons]
    have := ih (applyOp m op) (fun o ho => hc o (by simp [ho]))
    simp only [applyAll] at this
    rw [this]
    simp only [lastOn]
    cases hl : lastOn k r with
    | some x => rfl
    | none =>
      simp only
      have h1 := applyOp_get m op (hc op (by simp)) k
      simp only [lastOn] at h1
      exact h1

/-- **Replay is idempotent**: re-applying a clear-free segment that is already reflected, followed
    by everything after it, changes nothing (last writer wins). -/
theorem replay_idempotent (m : KMap) (z y1 rest : List LOp)
    (h1 : ∀ op ∈ z ++ y1 ++ rest, op.isClear = false) :
    (applyAll m (z ++ y1 ++ (y1 ++ rest))).Equiv (applyAll m (z ++ y1 ++ rest)) := by
  intro k
  have hc1 : ∀ op ∈ z ++ y1 ++ (y1 ++ rest), op.isClear = false := by
    intro op hop
    simp only [List.mem_append] at hop
    apply h1
    simp only [List.mem_append]
    rcases hop with (h | h) | h | h
    · left; left; exact h
    · left; right; exact h
    · left; right; exact h
    · right; exact h
  rw [applyAll_get m _ hc1 k, applyAll_get m _ h1 k]
  simp only [lastOn_append]
  cases lastOn k rest <;> cases lastOn k y1 <;> rfl

theorem applyAll_append (m : KMap) (a b : List LOp) : applyAll m (a ++ b) = applyAll (applyAll m a) b := by
  simp [applyAll]

/-- a `clear` wipes whatever came before -/
theorem applyAll_after_clear (m : KMap) (a b : List LOp) :
    applyAll m (a ++ [LOp.clear] ++ b) = applyAll [] b := by
  simp [applyAll, applyOp]

end Fjall.Db

namespace Fjall.Db
open Fjall Fjall.Spec

/-! ### replaying a journal into one keyspace -/

def replayKs (k : KsL) (recs : List Rec) : KsL := recs.foldl (fun k r => stepKs r k) k

theorem replayRec_eq_map (kss : List KsL) (r : Rec) : replayRec kss r = kss.map (stepKs r) := rfl

theorem stepKs_id (r : Rec) (k : KsL) : (stepKs r k).id = k.id := by
  unfold stepKs applyRec
  split
  · cases r.op <;> rfl
  · rfl

theorem replayKs_id (k : KsL) (recs : List Rec) : (replayKs k recs).id = k.id := by
  induction recs generalizing k with
  | nil => rfl
  | cons r rs ih => simp only [replayKs, List.foldl_cons] at ih ⊢; rw [ih, stepKs_id]

theorem foldl_replayRec (kss : List KsL) (recs : List Rec) :
    recs.foldl replayRec kss = kss.map fun k => replayKs k recs := by
  induction recs generalizing kss with
  | nil => simp [replayKs]
  | cons r rs ih =>
    simp only [List.foldl_cons, replayRec_eq_map, ih, List.map_map]
    rfl

def opsOf (rs : List Rec) : List LOp := rs.map (·.op)

theorem abs_eq (k : KsL) : k.abs = applyAll [] (opsOf (k.tables ++ k.sealedMem ++ k.mem)) := rfl

/-- replaying records = applying their operations (of this keyspace) to the logical content -/
theorem replayKs_abs (k : KsL) (recs : List Rec) :
    (replayKs k recs).abs = applyAll k.abs (opsOf (recs.filter fun r => r.ks = k.id)) := by
  induction recs generalizing k with
  | nil => simp [replayKs, opsOf, applyAll]
  | cons r rs ih =>
    simp only [replayKs, List.foldl_cons] at ih ⊢
    rw [ih (stepKs r k), stepKs_id]
    by_cases hr : r.ks = k.id
    · have hf : (r :: rs).filter (fun r => r.ks = k.id) = r :: rs.filter (fun r => r.ks = k.id) := by
        simp [List.filter, hr]
      rw [hf]
      simp only [opsOf, List.map_cons, applyAll, List.foldl_cons]
      congr 1
      simp only [stepKs, applyRec, hr.symm, if_true]
      cases hop : r.op with
      | clear => simp [KsL.abs, applyAll, applyOp]
      | put kk v =>
        simp only [KsL.abs, ← List.append_assoc, List.map_append, List.map_cons, List.map_nil, hop]
        simp [applyAll]
      | del kk =>
        simp only [KsL.abs, ← List.append_assoc, List.map_append, List.map_cons, List.map_nil, hop]
        simp [applyAll]
    · have hf : (r :: rs).filter (fun r => r.ks = k.id) = rs.filter (fun r => r.ks = k.id) := by
        simp [List.filter, hr]
      rw [hf]
      have : stepKs r k = k := by simp [stepKs, Ne.symm hr]
      rw [this]

end Fjall.Db

namespace Fjall.Db
open Fjall Fjall.Spec

/-! ### keys whose newest operation is a put; dropping operations that are not deletes -/

def LOp.isDel : LOp → Bool
  | .del _ => true
  | _ => false

theorem noLive_spec (L : List LOp) (h : noLive L = true) (x : Key) (v : Val) : lastOn x L ≠ some (some v) := by
  induction L with
  | nil => simp [lastOn]
  | cons op r ih =>
    simp only [noLive, Bool.and_eq_true] at h
    have ih' := ih h.1
    simp only [lastOn]
    cases hl : lastOn x r with
    | some e => simpa [hl] using ih'
    | none =>
      simp only
      cases op with
      | put k' v' =>
        simp only
        split
        · rename_i hk
          have := h.2
          simp only [hk, hl] at this
          simp at this
        · simp
      | del k' => simp only; split <;> simp
      | clear => simp

theorem noLive_of_spec (L : List LOp) (h : ∀ x v, lastOn x L ≠ some (some v)) : noLive L = true := by
  induction L with
  | nil => rfl
  | cons op r ih =>
    simp only [noLive, Bool.and_eq_true]
    refine ⟨ih fun x v hx => h x v (by simp [lastOn, hx]), ?_⟩
    cases op with
    | put k v =>
      simp only
      cases hl : lastOn k r with
      | some e => rfl
      | none =>
        exfalso
        exact h k v (by simp [lastOn, hl])
    | del k => rfl
    | clear => rfl

theorem noLive_suffix (a b : List LOp) (h : noLive (a ++ b) = true) : noLive b = true := by
  apply noLive_of_spec
  intro x v hx
  exact noLive_spec _ h x v (by rw [lastOn_append, hx])

theorem lastOn_filter_none (L : List Rec) (q : Rec → Bool) (x : Key)
    (h : lastOn x (opsOf L) = none) : lastOn x (opsOf (L.filter q)) = none := by
  induction L with
  | nil => rfl
  | cons a r ih =>
    simp only [opsOf, List.map_cons, lastOn] at h
    cases hl : lastOn x (r.map (·.op)) with
    | some e => simp [hl] at h
    | none =>
      simp only [hl] at h
      have ih' := ih (by simpa [opsOf] using hl)
      simp only [List.filter]
      split
      · simp only [opsOf, List.map_cons, lastOn]
        simp only [opsOf] at ih'
        rw [ih']
        exact h
      · exact ih'

theorem lastOn_filter_del (L : List Rec) (q : Rec → Bool) (x : Key)
    (hq : ∀ r ∈ L, r.op.isDel = true → q r = true)
    (h : lastOn x (opsOf L) = some none) : lastOn x (opsOf (L.filter q)) = some none := by
  induction L with
  | nil => simp [opsOf, lastOn] at h
  | cons a r ih =>
    simp only [opsOf, List.map_cons, lastOn] at h
    cases hl : lastOn x (r.map (·.op)) with
    | some e =>
      simp only [hl] at h
      have ih' := ih (fun r' hr' => hq r' (by simp [hr'])) (by simp only [opsOf, hl]; exact h)
      simp only [List.filter]
      split
      · simp only [opsOf, List.map_cons, lastOn]
        simp only [opsOf] at ih'
        rw [ih']
      · exact ih'
    | none =>
      simp only [hl] at h
      have hn := lastOn_filter_none r q x (by simpa [opsOf] using hl)
      -- `a` is a delete of `x`
      cases hop : a.op with
      | put k' v' => simp only [hop] at h; split at h <;> simp at h
      | clear => simp [hop] at h
      | del k' =>
        simp only [hop] at h
        have hqa : q a = true := hq a (by simp) (by simp [hop, LOp.isDel])
        simp only [List.filter, hqa, opsOf, List.map_cons, lastOn, hop]
        simp only [opsOf] at hn
        rw [hn]
        exact h

theorem noLive_filter (L : List Rec) (q : Rec → Bool)
    (hq : ∀ r ∈ L, r.op.isDel = true → q r = true) (h : noLive (opsOf L) = true) :
    noLive (opsOf (L.filter q)) = true := by
  apply noLive_of_spec
  intro x v hx
  cases hl : lastOn x (opsOf L) with
  | none => rw [lastOn_filter_none L q x hl] at hx; simp at hx
  | some e =>
    cases e with
    | some v' => exact noLive_spec _ h x v' hl
    | none => rw [lastOn_filter_del L q x hq hl] at hx; simp at hx

/-- **re-applying the journaled part of a table segment whose live entries are all tombstones
    changes nothing** -/
theorem lastOn_refilter (L : List Rec) (q : Rec → Bool) (x : Key)
    (hq : ∀ r ∈ L, r.op.isDel = true → q r = true) (h : noLive (opsOf L) = true) :
    lastOn x (opsOf (L ++ L.filter q)) = lastOn x (opsOf L) := by
  simp only [opsOf, List.map_append]
  rw [lastOn_append]
  cases hf : lastOn x ((L.filter q).map (·.op)) with
  | none => rfl
  | some e =>
    simp only
    cases hl : lastOn x (opsOf L) with
    | none =>
      have := lastOn_filter_none L q x hl
      simp only [opsOf] at this; rw [this] at hf; simp at hf
    | some e' =>
      cases e' with
      | some v' => exact absurd hl (noLive_spec _ h x v')
      | none =>
        have := lastOn_filter_del L q x hq hl
        simp only [opsOf] at this hl; rw [this] at hf
        rw [hl, ← hf]

/-- the same for any *tail* of the journaled part: whatever of it is re-applied changes nothing -/
theorem lastOn_resuffix (L : List Rec) (q : Rec → Bool) (V W : List Rec) (x : Key)
    (hVW : L.filter q = V ++ W)
    (hq : ∀ r ∈ L, r.op.isDel = true → q r = true) (h : noLive (opsOf L) = true) :
    lastOn x (opsOf (L ++ W)) = lastOn x (opsOf L) := by
  have hF := noLive_filter L q hq h
  rw [hVW] at hF
  have hW : noLive (opsOf W) = true := by
    simp only [opsOf, List.map_append] at hF
    exact noLive_suffix _ _ hF
  simp only [opsOf, List.map_append]
  rw [lastOn_append]
  cases hw : lastOn x (W.map (·.op)) with
  | none => rfl
  | some e =>
    simp only
    have he : e = none := by
      cases e with
      | none => rfl
      | some v => exact absurd hw (noLive_spec _ hW x v)
    subst he
    -- `x` is touched in `W`, hence in the filter, hence in `L`; `L` has no live put
    have hfilt : lastOn x (opsOf (L.filter q)) ≠ none := by
      rw [hVW]
      simp only [opsOf, List.map_append]
      rw [lastOn_append, hw]
      simp
    cases hl : lastOn x (opsOf L) with
    | none => exact absurd (lastOn_filter_none L q x hl) hfilt
    | some e' =>
      cases e' with
      | none => simp only [opsOf] at hl; rw [hl]
      | some v' => exact absurd hl (noLive_spec _ h x v')

/-! ### seqno order -/

def SeqSorted (L : List Rec) : Prop := L.Pairwise fun a b => a.seqno ≤ b.seqno

theorem above_mono (p : Option Nat) (a b : Rec) (h : a.seqno ≤ b.seqno) (ha : above p a = true) : above p b = true := by
  cases p with
  | none => rfl
  | some p => simp only [above, decide_eq_true_eq] at ha ⊢; omega

/-- in a seqno-sorted list the records above a threshold form a suffix -/
theorem sorted_split (L : List Rec) (p : Option Nat) (h : SeqSorted L) :
    L = L.filter (fun r => !above p r) ++ L.filter (above p) := by
  induction L with
  | nil => rfl
  | cons a r ih =>
    have ⟨h1, h2⟩ := List.pairwise_cons.mp h
    by_cases ha : above p a = true
    · have hall : ∀ b ∈ r, above p b = true := fun b hb => above_mono p a b (h1 b hb) ha
      have e1 : r.filter (fun r => !above p r) = [] := by
        simp only [List.filter_eq_nil_iff]; intro b hb; simp [hall b hb]
      have e2 : r.filter (above p) = r := by
        simp only [List.filter_eq_self]; exact hall
      simp [List.filter, ha, e1, e2]
    · have ha' : above p a = false := by simpa using ha
      simp only [List.filter, ha', Bool.not_false, List.cons_append]
      congr 1
      exact ih h2

theorem filter_above_all (L : List Rec) (p : Option Nat) (h : ∀ r ∈ L, above p r = true) : L.filter (above p) = L := by
  simp only [List.filter_eq_self]; exact h

theorem filter_above_none (L : List Rec) (p : Option Nat) (h : ∀ r ∈ L, above p r = false) : L.filter (above p) = [] := by
  simp only [List.filter_eq_nil_iff]; intro r hr; simp [h r hr]

end Fjall.Db

namespace Fjall.Db
open Fjall Fjall.Spec

/-! ### coverage invariant of one keyspace against its journal records -/

/-- `rk` = the records of this keyspace in the journals that still exist.  After the last `clear`
    (if any) they are: journaled records the tables reflect (`F1 ++ Y`), then what only the memtables
    hold (`N`); the memtables may also hold a stale re-replayed tail `Y` of the tables' part.  `Z` =
    journaled records the tables reflect whose journals were already evicted. -/
structure Cov (k : KsL) (rk : List Rec) : Prop where
  jr : ∀ r ∈ rk, r.ing = false
  noClearT : ∀ r ∈ k.tables, r.op.isClear = false
  ingPut : ∀ r ∈ k.tables, r.ing = true → r.op.isDel = false
  sortedJ : SeqSorted rk
  sortedT : SeqSorted k.tables
  sealedLt : ∀ s ∈ k.sealedMem, ∀ m ∈ k.mem, s.seqno < m.seqno
  persLe : ∀ p, k.persisted = some p → ∃ t ∈ k.tables, p ≤ t.seqno
  persMem : ∀ m ∈ k.sealedMem ++ k.mem, above k.persisted m = true
  phys : k.physOk = true
  struct : ∃ A Z F1 Y N, rk = A ++ (F1 ++ Y ++ N) ∧ k.tables.filter (fun r => !r.ing) = Z ++ (F1 ++ Y) ∧
      k.sealedMem ++ k.mem = Y ++ N ∧ (∀ r ∈ F1 ++ Y ++ N, r.op.isClear = false) ∧
      (∀ t ∈ k.tables, ∀ m ∈ N, t.seqno < m.seqno) ∧
      (A = [] ∨ (Z = [] ∧ ∃ A' c, A = A' ++ [c] ∧ c.op = .clear ∧ ∀ t ∈ k.tables, c.seqno ≤ t.seqno))

/-- records of other keyspaces are skipped -/
theorem replayKs_filter (k : KsL) (recs : List Rec) :
    replayKs k recs = replayKs k (recs.filter fun r => r.ks = k.id) := by
  induction recs generalizing k with
  | nil => rfl
  | cons r rs ih =>
    by_cases hr : r.ks = k.id
    · simp only [List.filter, hr, decide_true, replayKs, List.foldl_cons]
      have := ih (stepKs r k)
      simp only [replayKs, stepKs_id] at this
      exact this
    · simp only [List.filter, hr, decide_false, replayKs, List.foldl_cons]
      have hs : stepKs r k = k := by simp [stepKs, Ne.symm hr]
      rw [hs]
      exact ih k

theorem replayKs_append (k : KsL) (a b : List Rec) : replayKs k (a ++ b) = replayKs (replayKs k a) b := by
  simp [replayKs]

/-- replaying clear-free records of this keyspace appends them to the active memtable -/
theorem replayKs_noClear (k : KsL) (R : List Rec) (hks : ∀ r ∈ R, r.ks = k.id)
    (hc : ∀ r ∈ R, r.op.isClear = false) : replayKs k R = { k with mem := k.mem ++ R } := by
  induction R generalizing k with
  | nil => simp [replayKs]
  | cons r rs ih =>
    simp only [replayKs, List.foldl_cons]
    have hr := hks r (by simp)
    have hcr := hc r (by simp)
    have hs : stepKs r k = { k with mem := k.mem ++ [r] } := by
      simp only [stepKs, hr, if_true, applyRec]
      cases hop : r.op with
      | clear => simp [hop, LOp.isClear] at hcr
      | put _ _ => rfl
      | del _ => rfl
    rw [hs]
    have := ih { k with mem := k.mem ++ [r] } (fun r' h' => hks r' (by simp [h'])) (fun r' h' => hc r' (by simp [h']))
    simp only [replayKs] at this
    rw [this]
    simp

theorem replayKs_clear (k : KsL) (c : Rec) (hks : c.ks = k.id) (hc : c.op = .clear) :
    replayKs k [c] = { k with tables := [], sealedMem := [], mem := [], persisted := none } := by
  simp [replayKs, stepKs, hks, applyRec, hc]

/-- the two shapes a recovered keyspace can have -/
theorem recover_ks_shape (k : KsL) (rk : List Rec) (hks : ∀ r ∈ rk, r.ks = k.id) (h : Cov k rk) :
    (∃ Z F1a F1f Y N V, replayKs { k with sealedMem := [], mem := [] } (rk.filter (above k.persisted))
        = { k with sealedMem := [], mem := F1f ++ Y ++ N } ∧
      (∃ A, rk = A ++ (F1a ++ F1f ++ Y ++ N) ∧
        (A = [] ∨ (Z = [] ∧ ∃ A' c, A = A' ++ [c] ∧ c.op = .clear ∧ ∀ t ∈ k.tables, c.seqno ≤ t.seqno))) ∧
      k.tables.filter (fun r => !r.ing) = Z ++ (F1a ++ F1f ++ Y) ∧
      (k.tables.filter (above k.persisted)).filter (fun r => !r.ing) = V ++ (F1f ++ Y) ∧
      k.sealedMem ++ k.mem = Y ++ N ∧ (∀ r ∈ F1f ++ Y ++ N, above k.persisted r = true) ∧
      (∀ r ∈ F1a ++ F1f ++ Y ++ N, r.op.isClear = false) ∧ (∀ t ∈ k.tables, ∀ m ∈ N, t.seqno < m.seqno))
    ∨
    (∃ F N, replayKs { k with sealedMem := [], mem := [] } (rk.filter (above k.persisted))
        = { k with tables := [], sealedMem := [], mem := F ++ N, persisted := none } ∧
      (∃ A, rk = A ++ (F ++ N) ∧ ∃ A' c, A = A' ++ [c] ∧ c.op = .clear) ∧
      k.tables.filter (fun r => !r.ing) = F ∧ k.tables.filter (above k.persisted) = k.tables ∧
      (∃ Y N', F = (F.take (F.length - Y.length)) ++ Y ∧ k.sealedMem ++ k.mem = Y ++ N' ∧ N = N') ∧
      (∀ r ∈ F ++ N, r.op.isClear = false)) := by
  obtain ⟨A, Z, F1, Y, N, hrk, hF, hmem, hnc, hTN, hA⟩ := h.struct
  have hYN : ∀ r ∈ Y ++ N, above k.persisted r = true := by
    intro r hr; rw [← hmem] at hr; exact h.persMem r hr
  have hsF1 : SeqSorted F1 := by
    have : SeqSorted (A ++ (F1 ++ Y ++ N)) := hrk ▸ h.sortedJ
    exact ((List.pairwise_append.mp ((List.pairwise_append.mp ((List.pairwise_append.mp this).2.1)).1)).1)
  have hfilt : rk.filter (above k.persisted) = A.filter (above k.persisted) ++ (F1.filter (above k.persisted) ++ Y ++ N) := by
    rw [hrk]
    simp only [List.filter_append]
    rw [filter_above_all Y _ (fun r hr => hYN r (by simp [hr])), filter_above_all N _ (fun r hr => hYN r (by simp [hr]))]
  have hksF : ∀ r ∈ F1.filter (above k.persisted) ++ Y ++ N, r.ks = k.id := by
    intro r hr
    apply hks; rw [hrk]
    simp only [List.mem_append, List.mem_filter] at hr ⊢
    rcases hr with (⟨h1, _⟩ | h1) | h1
    · right; left; left; exact h1
    · right; left; right; exact h1
    · right; right; exact h1
  have hncF : ∀ r ∈ F1.filter (above k.persisted) ++ Y ++ N, r.op.isClear = false := by
    intro r hr
    apply hnc
    simp only [List.mem_append, List.mem_filter] at hr ⊢
    rcases hr with (⟨h1, _⟩ | h1) | h1
    · left; left; exact h1
    · left; right; exact h1
    · right; exact h1
  -- does the last clear get replayed?
  have hcaseA : A.filter (above k.persisted) = [] ∨
      (Z = [] ∧ ∃ A' c, A = A' ++ [c] ∧ c.op = .clear ∧ (∀ t ∈ k.tables, c.seqno ≤ t.seqno) ∧ above k.persisted c = true) := by
    rcases hA with rfl | ⟨hZ, A', c, rfl, hc, hct⟩
    · left; rfl
    · by_cases hab : above k.persisted c = true
      · right; exact ⟨hZ, A', c, rfl, hc, hct, hab⟩
      · left
        apply filter_above_none
        intro a ha
        have hle : a.seqno ≤ c.seqno := by
          simp only [List.mem_append, List.mem_singleton] at ha
          rcases ha with ha | rfl
          · have : SeqSorted ((A' ++ [c]) ++ (F1 ++ Y ++ N)) := hrk ▸ h.sortedJ
            have := (List.pairwise_append.mp (List.pairwise_append.mp this).1).2.2
            exact this a ha c (by simp)
          · exact Nat.le_refl _
        cases hx : above k.persisted a with
        | false => rfl
        | true => exact absurd (above_mono _ a c hle hx) hab
  rcases hcaseA with hAe | ⟨hZ, A', c, rfl, hc, hct, hab⟩
  · left
    refine ⟨Z, F1.filter (fun r => !above k.persisted r), F1.filter (above k.persisted), Y, N, Z.filter (above k.persisted), ?_, ⟨A, ?_, hA⟩, ?_, ?_, hmem, ?_, ?_, hTN⟩
    · rw [hfilt, hAe, List.nil_append, replayKs_noClear { k with sealedMem := [], mem := [] } _ hksF hncF]
      simp
    · rw [← sorted_split F1 _ hsF1]; exact hrk
    · rw [← sorted_split F1 _ hsF1]; exact hF
    · rw [List.filter_filter]
      have : (k.tables.filter fun r => (!r.ing) && above k.persisted r) = (k.tables.filter (fun r => !r.ing)).filter (above k.persisted) := by
        rw [List.filter_filter]; congr 1; funext r; exact Bool.and_comm _ _
      rw [this, hF, List.filter_append, List.filter_append, filter_above_all Y _ (fun r hr => hYN r (by simp [hr]))]
    · intro r hr
      simp only [List.mem_append, List.mem_filter] at hr
      rcases hr with (⟨_, h1⟩ | h1) | h1
      · exact h1
      · exact hYN r (by simp [h1])
      · exact hYN r (by simp [h1])
    · rw [← sorted_split F1 _ hsF1]; exact hnc
  · right
    subst hZ
    have hTall : ∀ t ∈ k.tables, above k.persisted t = true := fun t ht => above_mono _ c t (hct t ht) hab
    have hF1all : F1.filter (above k.persisted) = F1 := by
      apply filter_above_all
      intro r hr
      have : r ∈ k.tables.filter (fun r => !r.ing) := by rw [hF]; simp [hr]
      exact hTall r (List.mem_filter.mp this).1
    refine ⟨F1 ++ Y, N, ?_, ⟨A' ++ [c], by rw [hrk], A', c, rfl, hc⟩, by simpa using hF, filter_above_all _ _ hTall, ⟨Y, N, by simp, hmem, rfl⟩, by simpa using hnc⟩
    rw [hfilt, hF1all]
    have hcab : (A' ++ [c]).filter (above k.persisted) = A'.filter (above k.persisted) ++ [c] := by
      simp [List.filter_append, List.filter, hab]
    rw [hcab, List.append_assoc, replayKs_append, replayKs_append]
    have hck : c.ks = k.id := hks c (by rw [hrk]; simp)
    have hid : (replayKs { k with sealedMem := [], mem := [] } (A'.filter (above k.persisted))).id = k.id := by
      rw [replayKs_id]
    rw [replayKs_clear _ c (by rw [hid]; exact hck) hc]
    rw [replayKs_noClear _ _ (by intro r hr; rw [hF1all] at hksF; simp only [replayKs_id]; exact hksF r hr)
      (by rw [hF1all] at hncF; exact hncF)]
    simp only [List.nil_append]
    -- everything but id / name is overwritten; id and name never change under replay
    have hname : ∀ (k : KsL) (R : List Rec), (replayKs k R).name = k.name := by
      intro k R
      induction R generalizing k with
      | nil => rfl
      | cons r rs ih =>
        simp only [replayKs, List.foldl_cons] at ih ⊢
        rw [ih]
        unfold stepKs applyRec
        split
        · cases r.op <;> rfl
        · rfl
    generalize hR : replayKs { k with sealedMem := [], mem := [] } (A'.filter (above k.persisted)) = R
    have h1 : R.id = k.id := by rw [← hR, replayKs_id]
    have h2 : R.name = k.name := by rw [← hR, hname]
    cases R; cases k
    simp only at h1 h2
    simp [h1, h2]

end Fjall.Db

namespace Fjall.Db
open Fjall Fjall.Spec

@[simp] theorem opsOf_append (a b : List Rec) : opsOf (a ++ b) = opsOf a ++ opsOf b := by simp [opsOf]
@[simp] theorem opsOf_nil : opsOf [] = [] := rfl

theorem opsOf_noClear (L : List Rec) (h : ∀ r ∈ L, r.op.isClear = false) : ∀ op ∈ opsOf L, op.isClear = false := by
  intro op hop
  obtain ⟨r, hr, rfl⟩ := List.mem_map.mp hop
  exact h r hr

theorem keepsDels (k : KsL) (rk : List Rec) (h : Cov k rk) (L : List Rec) (hL : ∀ r ∈ L, r ∈ k.tables) :
    ∀ r ∈ L, r.op.isDel = true → (fun (r : Rec) => !r.ing) r = true := by
  intro r hr hd
  cases hi : r.ing with
  | false => simp [hi]
  | true => have := h.ingPut r (hL r hr) hi; rw [this] at hd; exact absurd hd (by simp)

theorem lastOn_case1 (x : Key) (T1 T2 F Y N : List LOp) (hD : lastOn x (T2 ++ (F ++ Y)) = lastOn x T2) :
    lastOn x ((T1 ++ T2) ++ (F ++ Y ++ N)) = lastOn x ((T1 ++ T2) ++ (Y ++ N)) := by
  simp only [lastOn_append] at hD ⊢
  generalize lastOn x N = a at hD ⊢
  generalize lastOn x Y = b at hD ⊢
  generalize lastOn x F = c at hD ⊢
  generalize lastOn x T2 = d at hD ⊢
  generalize lastOn x T1 = e at hD ⊢
  cases a <;> cases b <;> cases c <;> cases d <;> simp_all

theorem lastOn_case2 (x : Key) (T F0 Y N : List LOp) (s1 : ∀ v, lastOn x T ≠ some (some v))
    (s2 : ∀ v, lastOn x (F0 ++ Y) ≠ some (some v)) :
    (match lastOn x ((F0 ++ Y) ++ N) with | some z => z | none => none) =
    (match lastOn x (T ++ (Y ++ N)) with | some z => z | none => none) := by
  simp only [lastOn_append] at s2 ⊢
  generalize lastOn x N = a at s2 ⊢
  generalize lastOn x Y = b at s2 ⊢
  generalize lastOn x F0 = c at s2 ⊢
  generalize lastOn x T = d at s1 s2 ⊢
  cases a <;> cases b <;> simp_all
  cases c with
  | none => cases d with
    | none => rfl
    | some d => cases d with
      | none => rfl
      | some v => exact absurd rfl (s1 v)
  | some c => cases c with
    | some v => exact absurd rfl (s2 v)
    | none => cases d with
      | none => rfl
      | some d => cases d with
        | none => rfl
        | some v => exact absurd rfl (s1 v)

/-- **recovery of one keyspace reproduces its content**: replaying the journal records above the
    highest seqno found in the tables, on top of the tables -/
theorem recover_ks_abs (k : KsL) (rk : List Rec) (hks : ∀ r ∈ rk, r.ks = k.id) (h : Cov k rk) :
    (replayKs { k with sealedMem := [], mem := [] } (rk.filter (above k.persisted))).abs.Equiv k.abs := by
  intro x
  have hkabs : k.abs = applyAll [] (opsOf (k.tables ++ (k.sealedMem ++ k.mem))) := by
    simp [KsL.abs, opsOf]
  rcases recover_ks_shape k rk hks h with ⟨Z, F1a, F1f, Y, N, V, hrep, _, _, hT2, hmem, _, hnc, _⟩ | ⟨F, N, hrep, _, hF, hTall, ⟨Y, N', hFY, hmem, rfl⟩, hnc⟩
  · rw [hrep, hkabs, hmem]
    simp only [KsL.abs, List.append_nil]
    have hncT := opsOf_noClear _ h.noClearT
    have hnc1 : ∀ op ∈ opsOf (k.tables ++ (F1f ++ Y ++ N)), op.isClear = false := by
      apply opsOf_noClear
      intro r hr
      simp only [List.mem_append] at hr
      rcases hr with hr | hr
      · exact h.noClearT r hr
      · exact hnc r (by simp only [List.mem_append] at hr ⊢; rcases hr with (hr | hr) | hr <;> simp [hr])
    have hnc2 : ∀ op ∈ opsOf (k.tables ++ (Y ++ N)), op.isClear = false := by
      apply opsOf_noClear
      intro r hr
      simp only [List.mem_append] at hr
      rcases hr with hr | hr
      · exact h.noClearT r hr
      · exact hnc r (by simp only [List.mem_append] at hr ⊢; rcases hr with hr | hr <;> simp [hr])
    have e1 : (k.tables ++ (F1f ++ Y ++ N)).map (·.op) = opsOf (k.tables ++ (F1f ++ Y ++ N)) := rfl
    rw [e1, applyAll_get _ _ hnc1 x, applyAll_get _ _ hnc2 x]
    -- split the tables at the persisted seqno
    have hsplit := sorted_split k.tables k.persisted h.sortedT
    have hD := lastOn_resuffix (k.tables.filter (above k.persisted)) (fun r => !r.ing) V (F1f ++ Y) x hT2
      (keepsDels k rk h _ (fun r hr => (List.mem_filter.mp hr).1)) h.phys
    rw [hsplit]
    simp only [opsOf_append] at hD ⊢
    rw [lastOn_case1 x _ _ _ _ _ hD]
  · rw [hrep, hkabs, hmem]
    simp only [KsL.abs, List.append_nil, List.nil_append]
    have hnc1 : ∀ op ∈ opsOf (F ++ N), op.isClear = false := opsOf_noClear _ hnc
    have hnc2 : ∀ op ∈ opsOf (k.tables ++ (Y ++ N)), op.isClear = false := by
      apply opsOf_noClear
      intro r hr
      simp only [List.mem_append] at hr
      rcases hr with hr | hr | hr
      · exact h.noClearT r hr
      · exact hnc r (by rw [hFY]; simp [hr])
      · exact hnc r (by simp [hr])
    have e1 : (F ++ N).map (·.op) = opsOf (F ++ N) := rfl
    rw [e1, applyAll_get _ _ hnc1 x, applyAll_get _ _ hnc2 x]
    have hphys : noLive (opsOf k.tables) = true := by
      have := h.phys
      simp only [KsL.physOk, hTall] at this
      exact this
    have hphysF : noLive (opsOf F) = true := by
      rw [← hF]
      exact noLive_filter _ _ (keepsDels k rk h _ (fun r hr => hr)) hphys
    have s1 := noLive_spec _ hphys x
    have s2 := noLive_spec _ hphysF x
    rw [hFY] at s2 ⊢
    simp only [opsOf_append] at s2 ⊢
    have hg : KMap.get [] x = none := rfl
    rw [hg]
    exact lastOn_case2 x _ _ _ _ s1 s2

end Fjall.Db

namespace Fjall.Db
open Fjall Fjall.Spec

theorem stepKs_other (r : Rec) (k : KsL) (h : r.ks ≠ k.id) : stepKs r k = k := by
  simp [stepKs, Ne.symm h]

theorem physOk_nil (id : KsId) (nm : String) (sm m : List Rec) (p : Option Nat) :
    ({ id := id, name := nm, tables := [], sealedMem := sm, mem := m, persisted := p } : KsL).physOk = true := rfl

theorem cov_fresh (id : KsId) (nm : String) : Cov { id := id, name := nm } [] := by
  refine ⟨by simp, by simp, by simp, List.Pairwise.nil, List.Pairwise.nil, by simp, by simp, by simp, rfl,
    [], [], [], [], [], by simp, by simp, by simp, by simp, by simp, Or.inl rfl⟩

/-- the state a keyspace is in after recovery is covered by the same journal again
    (so any number of reopen cycles is fine) -/
theorem cov_recovered (k : KsL) (rk : List Rec) (hks : ∀ r ∈ rk, r.ks = k.id) (h : Cov k rk) :
    Cov (replayKs { k with sealedMem := [], mem := [] } (rk.filter (above k.persisted))) rk := by
  rcases recover_ks_shape k rk hks h with ⟨Z, F1a, F1f, Y, N, V, hrep, ⟨A, hrk, hA⟩, hF, _, hmem, hab, hnc, hTN⟩ | ⟨F, N, hrep, ⟨A, hrk, A', c, hA, hc⟩, hF, hTall, _, hnc⟩
  · rw [hrep]
    refine ⟨h.jr, h.noClearT, h.ingPut, h.sortedJ, h.sortedT, by simp, h.persLe, ?_, h.phys, ?_⟩
    · simpa using hab
    · refine ⟨A, Z, F1a, F1f ++ Y, N, by rw [hrk]; simp, by rw [hF]; simp, by simp, ?_, hTN, hA⟩
      intro r hr; exact hnc r (by simpa [List.append_assoc] using hr)
  · rw [hrep]
    refine ⟨h.jr, by simp, by simp, h.sortedJ, List.Pairwise.nil, by simp, by simp, by simp [above], rfl, ?_⟩
    refine ⟨A, [], [], [], F ++ N, by rw [hrk]; simp, by simp, by simp, by simpa using hnc, by simp, Or.inr ⟨rfl, A', c, hA, hc, by simp⟩⟩

theorem sorted_append_one (L : List Rec) (r : Rec) (h : SeqSorted L) (hle : ∀ x ∈ L, x.seqno ≤ r.seqno) :
    SeqSorted (L ++ [r]) := by
  unfold SeqSorted
  rw [List.pairwise_append]
  refine ⟨h, List.pairwise_singleton _ _, ?_⟩
  intro a ha b hb
  simp at hb; rw [hb]; exact hle a ha

/-- appending a record to the journal and applying it keeps coverage -/
theorem cov_step (k : KsL) (rk : List Rec) (r : Rec) (hr : r.ks = k.id) (hing : r.ing = false)
    (hle : ∀ x ∈ rk, x.seqno ≤ r.seqno) (hlt : ∀ x ∈ k.sealedMem ++ k.tables, x.seqno < r.seqno)
    (h : Cov k rk) : Cov (stepKs r k) (rk ++ [r]) := by
  have hjr : ∀ x ∈ rk ++ [r], x.ing = false := by
    intro x hx; simp at hx; rcases hx with hx | rfl
    · exact h.jr x hx
    · exact hing
  have hsj := sorted_append_one rk r h.sortedJ hle
  obtain ⟨A, Z, F1, Y, N, hrk, hF, hmem, hnc, hTN, hA⟩ := h.struct
  rw [show stepKs r k = applyRec r k from if_pos hr.symm]
  simp only [applyRec]
  have hput : r.op.isClear = false →
      Cov { k with mem := k.mem ++ [r] } (rk ++ [r]) := by
    intro hcl
    refine ⟨hjr, h.noClearT, h.ingPut, hsj, h.sortedT, ?_, h.persLe, ?_, h.phys, ?_⟩
    · intro s hs m hm
      simp at hm
      rcases hm with hm | rfl
      · exact h.sealedLt s hs m hm
      · exact hlt s (by simp [hs])
    · intro m hm
      simp only [List.mem_append, List.mem_singleton, ← List.append_assoc] at hm
      rcases hm with hm | rfl
      · exact h.persMem m (by simpa using hm)
      · cases hp : k.persisted with
        | none => rfl
        | some p =>
          obtain ⟨t, ht, hpt⟩ := h.persLe p hp
          have := hlt t (by simp [ht])
          simp only [above, decide_eq_true_eq]; omega
    · refine ⟨A, Z, F1, Y, N ++ [r], by rw [hrk]; simp, hF, by simp only [← List.append_assoc, hmem], ?_, ?_, hA⟩
      · intro x hx
        simp only [← List.append_assoc, List.mem_append, List.mem_singleton] at hx
        rcases hx with hx | rfl
        · exact hnc x (by simp only [List.mem_append] at hx ⊢; exact hx)
        · exact hcl
      · intro t ht m hm
        simp at hm
        rcases hm with hm | rfl
        · exact hTN t ht m hm
        · exact hlt t (by simp [ht])
  cases hop : r.op with
  | clear =>
    simp only
    refine ⟨hjr, by simp, by simp, hsj, List.Pairwise.nil, by simp, by simp, by simp, rfl, ?_⟩
    exact ⟨rk ++ [r], [], [], [], [], by simp, by simp, by simp, by simp, by simp, Or.inr ⟨rfl, rk, r, rfl, hop, by simp⟩⟩
  | put kk v => simp only; exact hput (by simp [hop, LOp.isClear])
  | del kk => simp only; exact hput (by simp [hop, LOp.isClear])

theorem stepKs_shrinks (r : Rec) (k : KsL) :
    (∀ x ∈ (stepKs r k).sealedMem ++ (stepKs r k).tables, x ∈ k.sealedMem ++ k.tables) := by
  unfold stepKs applyRec
  split
  · cases r.op <;> simp
  · simp

/-- a batch: all records carry the same seqno -/
theorem cov_replay (k : KsL) (rk : List Rec) (recs : List Rec) (s : Nat)
    (hs : ∀ r ∈ recs, r.seqno = s ∧ r.ing = false)
    (hle : ∀ x ∈ rk, x.seqno ≤ s) (hlt : ∀ x ∈ k.sealedMem ++ k.tables, x.seqno < s)
    (h : Cov k rk) : Cov (replayKs k recs) (rk ++ recs.filter fun r => r.ks = k.id) := by
  induction recs generalizing k rk with
  | nil => simpa [replayKs] using h
  | cons r rs ih =>
    simp only [replayKs, List.foldl_cons]
    have hr1 := hs r (by simp)
    have hs' : ∀ r ∈ rs, r.seqno = s ∧ r.ing = false := fun r' h' => hs r' (by simp [h'])
    by_cases hr : r.ks = k.id
    · have hc := cov_step k rk r hr hr1.2 (by rw [hr1.1]; exact hle) (by rw [hr1.1]; exact hlt) h
      have := ih (stepKs r k) (rk ++ [r]) hs' (by
          intro x hx; simp at hx; rcases hx with hx | rfl
          · exact hle x hx
          · rw [hr1.1]; exact Nat.le_refl _)
        (fun x hx => hlt x (stepKs_shrinks r k x hx)) hc
      simp only [replayKs, stepKs_id] at this
      simpa [List.filter, hr] using this
    · rw [stepKs_other r k hr]
      have := ih k rk hs' hle hlt h
      simp only [replayKs] at this
      simpa [List.filter, hr] using this

theorem cov_rotate (k : KsL) (rk : List Rec) (h : Cov k rk) : Cov (sealMem k) rk := by
  unfold sealMem
  split
  · exact h
  · obtain ⟨A, Z, F1, Y, N, hrk, hF, hmem, hnc, hTN, hA⟩ := h.struct
    refine ⟨h.jr, h.noClearT, h.ingPut, h.sortedJ, h.sortedT, by simp, h.persLe, ?_, h.phys, ?_⟩
    · simpa using h.persMem
    · exact ⟨A, Z, F1, Y, N, hrk, hF, by simpa using hmem, hnc, hTN, hA⟩

theorem maxSeqno_spec (L : List Rec) :
    (L = [] ∧ maxSeqno L = none) ∨ (∃ m, maxSeqno L = some m ∧ (∀ r ∈ L, r.seqno ≤ m) ∧ ∃ r ∈ L, r.seqno = m) := by
  have gen : ∀ (l : List Rec) (a : Nat), ∃ m,
      l.foldl maxStep (some a) = some m ∧
      a ≤ m ∧ (∀ r ∈ l, r.seqno ≤ m) ∧ (m = a ∨ ∃ r ∈ l, r.seqno = m) := by
    intro l
    induction l with
    | nil => intro a; exact ⟨a, rfl, Nat.le_refl _, by simp, Or.inl rfl⟩
    | cons y r ih =>
      intro a
      obtain ⟨m, h1, h2, h3, h4⟩ := ih (max a y.seqno)
      refine ⟨m, by simpa [List.foldl_cons, maxStep] using h1, by omega, ?_, ?_⟩
      · intro x hx; simp at hx; rcases hx with rfl | hx
        · omega
        · exact h3 x hx
      · rcases h4 with h4 | ⟨x, hx, h5⟩
        · by_cases hay : a ≤ y.seqno
          · right; exact ⟨y, by simp, by omega⟩
          · left; omega
        · right; exact ⟨x, by simp [hx], h5⟩
  cases L with
  | nil => left; exact ⟨rfl, rfl⟩
  | cons y r =>
    right
    obtain ⟨m, h1, h2, h3, h4⟩ := gen r y.seqno
    refine ⟨m, by simpa [maxSeqno, List.foldl_cons, maxStep] using h1, ?_, ?_⟩
    · intro x hx; simp at hx; rcases hx with rfl | hx
      · exact h2
      · exact h3 x hx
    · rcases h4 with h4 | ⟨x, hx, h5⟩
      · exact ⟨y, by simp, h4.symm⟩
      · exact ⟨x, by simp [hx], h5⟩

end Fjall.Db

namespace Fjall.Db
open Fjall Fjall.Spec

theorem sorted_filter (L : List Rec) (q : Rec → Bool) (h : SeqSorted L) : SeqSorted (L.filter q) :=
  List.Pairwise.sublist List.filter_sublist h

theorem above_of_le (p q : Option Nat) (r : Rec)
    (hq : ∀ a, q = some a → ∃ b, p = some b ∧ a ≤ b) (h : above p r = true) : above q r = true := by
  cases hq' : q with
  | none => rfl
  | some a =>
    obtain ⟨b, hb, hab⟩ := hq a hq'
    rw [hb] at h
    simp only [above, decide_eq_true_eq] at h ⊢
    omega

/-- raising the threshold keeps "no live put above it" -/
theorem phys_raise (T : List Rec) (p p' : Option Nat) (hs : SeqSorted T)
    (hle : ∀ r, above p' r = true → above p r = true)
    (h : noLive (opsOf (T.filter (above p))) = true) : noLive (opsOf (T.filter (above p'))) = true := by
  have hsp := sorted_split (T.filter (above p)) p' (sorted_filter T _ hs)
  have e : (T.filter (above p)).filter (above p') = T.filter (above p') := by
    rw [List.filter_filter]
    apply List.filter_congr
    intro r _
    cases h1 : above p' r with
    | false => simp
    | true => simp [hle r h1]
  rw [e] at hsp
  rw [hsp, opsOf_append] at h
  exact noLive_suffix _ _ h

theorem optMax_spec (p : Option Nat) (m : Nat) :
    ∃ q, optMax p (some m) = some q ∧ m ≤ q ∧ (∀ a, p = some a → a ≤ q) ∧ (q = m ∨ p = some q) := by
  cases p with
  | none => exact ⟨m, rfl, Nat.le_refl _, by simp, Or.inl rfl⟩
  | some a =>
    refine ⟨max a m, rfl, by omega, by intro b hb; cases hb; omega, ?_⟩
    by_cases h : a ≤ m
    · left; omega
    · right; congr 1; omega

theorem optMax_none (p : Option Nat) : optMax p none = p := by cases p <;> rfl

theorem cov_flushSealed (k : KsL) (rk : List Rec) (h : Cov k rk) : Cov k.flushSealed rk := by
  obtain ⟨A, Z, F1, Y, N, hrk, hF, hmem, hnc, hTN, hA⟩ := h.struct
  have hsj : SeqSorted (A ++ (F1 ++ Y ++ N)) := hrk ▸ h.sortedJ
  have hsubT : ∀ r ∈ F1 ++ Y, r ∈ k.tables := by
    intro r hr
    have : r ∈ k.tables.filter (fun r => !r.ing) := by rw [hF]; simp only [List.mem_append] at hr ⊢; right; exact hr
    exact (List.mem_filter.mp this).1
  have hjrB : ∀ r ∈ F1 ++ Y ++ N, r.ing = false := by
    intro r hr; apply h.jr; rw [hrk]; simp only [List.mem_append] at hr ⊢; right; exact hr
  have hAc : ∀ t ∈ F1 ++ Y ++ N, (A = [] ∨ ∃ A' c, A = A' ++ [c] ∧ c.op = .clear ∧ c.seqno ≤ t.seqno) := by
    intro t ht
    rcases hA with rfl | ⟨_, A', c, rfl, hc, _⟩
    · left; rfl
    · right; exact ⟨A', c, rfl, hc, (List.pairwise_append.mp hsj).2.2 c (by simp) t ht⟩
  -- persisted
  have hpers : ∃ q, k.flushSealed.persisted = q ∧ (∀ r, above q r = true → above k.persisted r = true) ∧
      (∀ s ∈ k.sealedMem, above q s = false) ∧
      (∀ a, q = some a → (k.persisted = some a) ∨ ∃ s ∈ k.sealedMem, s.seqno = a) ∧
      (∀ m, above k.persisted m = true → (∀ s ∈ k.sealedMem, s.seqno < m.seqno) → above q m = true) := by
    simp only [KsL.flushSealed]
    rcases maxSeqno_spec k.sealedMem with ⟨he, hm⟩ | ⟨m, hm, hall, s0, hs0, hs0m⟩
    · rw [hm, optMax_none]
      exact ⟨_, rfl, fun _ h => h, by rw [he]; simp, fun a ha => Or.inl ha, fun _ h _ => h⟩
    · rw [hm]
      obtain ⟨q, hq, hmq, hpq, hor⟩ := optMax_spec k.persisted m
      rw [hq]
      refine ⟨_, rfl, ?_, ?_, ?_, ?_⟩
      · intro r hr
        apply above_of_le (some q) k.persisted r _ hr
        intro a ha; exact ⟨q, rfl, hpq a ha⟩
      · intro s hs
        have := hall s hs
        simp only [above, decide_eq_false_iff_not]; omega
      · intro a ha
        cases ha
        rcases hor with rfl | hor
        · right; exact ⟨s0, hs0, hs0m⟩
        · left; exact hor
      · intro mm hab hlt
        simp only [above, decide_eq_true_eq]
        rcases hor with rfl | hor
        · rw [← hs0m]; exact hlt s0 hs0
        · rw [hor] at hab; simpa [above] using hab
  obtain ⟨q, hq, hq1, hq2, hq3, hq4⟩ := hpers
  -- the two cases: the sealed memtables are part of the stale tail, or contain all of it
  rcases List.append_eq_append_iff.mp hmem with ⟨Y2, hY, hM⟩ | ⟨N1, hSM, hN⟩
  · have hK : k.sealedMem.filter (fun r => decide (r ∉ k.tables)) = [] := by
      simp only [List.filter_eq_nil_iff, decide_eq_true_eq, Decidable.not_not]
      intro r hr
      exact hsubT r (by rw [hY]; simp [hr])
    have hT' : k.flushSealed.tables = k.tables := by
      show k.tables ++ k.sealedMem.filter (fun r => decide (r ∉ k.tables)) = _
      rw [hK]; simp
    refine ⟨h.jr, by rw [hT']; exact h.noClearT, by rw [hT']; exact h.ingPut, h.sortedJ,
      by rw [hT']; exact h.sortedT, by simp [KsL.flushSealed], ?_, ?_, ?_, ?_⟩
    · intro a ha
      rw [hq] at ha; rw [hT']
      rcases hq3 a ha with hp | ⟨s, hs, rfl⟩
      · exact h.persLe a hp
      · exact ⟨s, hsubT s (by rw [hY]; simp [hs]), Nat.le_refl _⟩
    · intro m hm
      simp only [KsL.flushSealed, List.nil_append] at hm
      rw [hq]
      exact hq4 m (h.persMem m (by simp [hm])) (fun s hs => h.sealedLt s hs m hm)
    · simp only [KsL.physOk, hT', hq]
      exact phys_raise _ _ _ h.sortedT hq1 h.phys
    · refine ⟨A, Z, F1 ++ k.sealedMem, Y2, N, by rw [hrk, hY]; simp, by rw [hT', hF, hY]; simp,
        by simp [KsL.flushSealed, hM], ?_, by rw [hT']; exact hTN, by rw [hT']; exact hA⟩
      intro r hr
      exact hnc r (by rw [hY]; simpa [List.append_assoc] using hr)
  · have hN1T : ∀ n ∈ N1, n ∉ k.tables := by
      intro n hn hc
      have := hTN n hc n (by rw [hN]; simp [hn])
      exact Nat.lt_irrefl _ this
    have hK : k.sealedMem.filter (fun r => decide (r ∉ k.tables)) = N1 := by
      rw [hSM, List.filter_append]
      have e1 : Y.filter (fun r => decide (r ∉ k.tables)) = [] := by
        simp only [List.filter_eq_nil_iff, decide_eq_true_eq, Decidable.not_not]
        intro r hr; exact hsubT r (by simp [hr])
      have e2 : N1.filter (fun r => decide (r ∉ k.tables)) = N1 := by
        simp only [List.filter_eq_self, decide_eq_true_eq]; exact hN1T
      rw [e1, e2]; rfl
    have hT' : k.flushSealed.tables = k.tables ++ N1 := by
      show k.tables ++ k.sealedMem.filter (fun r => decide (r ∉ k.tables)) = _
      rw [hK]
    have hN1B : ∀ n ∈ N1, n ∈ F1 ++ Y ++ N := by intro n hn; rw [hN]; simp [hn]
    have hsN1 : SeqSorted N1 := by
      have h1 := (List.pairwise_append.mp hsj).2.1
      have h2 := (List.pairwise_append.mp h1).2.1
      rw [hN] at h2
      exact (List.pairwise_append.mp h2).1
    refine ⟨h.jr, ?_, ?_, h.sortedJ, ?_, by simp [KsL.flushSealed], ?_, ?_, ?_, ?_⟩
    · rw [hT']; intro r hr; simp only [List.mem_append] at hr
      rcases hr with hr | hr
      · exact h.noClearT r hr
      · exact hnc r (hN1B r hr)
    · rw [hT']; intro r hr hi; simp only [List.mem_append] at hr
      rcases hr with hr | hr
      · exact h.ingPut r hr hi
      · rw [hjrB r (hN1B r hr)] at hi; exact absurd hi (by simp)
    · rw [hT']; unfold SeqSorted; rw [List.pairwise_append]
      exact ⟨h.sortedT, hsN1, fun t ht n hn => Nat.le_of_lt (hTN t ht n (by rw [hN]; simp [hn]))⟩
    · intro a ha
      rw [hq] at ha; rw [hT']
      rcases hq3 a ha with hp | ⟨s, hs, rfl⟩
      · obtain ⟨t, ht, hle⟩ := h.persLe a hp; exact ⟨t, by simp [ht], hle⟩
      · rw [hSM] at hs; simp only [List.mem_append] at hs
        rcases hs with hs | hs
        · exact ⟨s, by simp [hsubT s (by simp [hs])], Nat.le_refl _⟩
        · exact ⟨s, by simp [hs], Nat.le_refl _⟩
    · intro m hm
      simp only [KsL.flushSealed, List.nil_append] at hm
      rw [hq]
      exact hq4 m (h.persMem m (by simp [hm])) (fun s hs => h.sealedLt s hs m hm)
    · simp only [KsL.physOk, hT', hq]
      have : (k.tables ++ N1).filter (above q) = k.tables.filter (above q) := by
        rw [List.filter_append]
        have : N1.filter (above q) = [] := by
          apply filter_above_none
          intro n hn; exact hq2 n (by rw [hSM]; simp [hn])
        rw [this]; simp
      rw [this]
      exact phys_raise _ _ _ h.sortedT hq1 h.phys
    · refine ⟨A, Z, F1 ++ Y ++ N1, [], k.mem, by rw [hrk, hN]; simp, ?_, by simp [KsL.flushSealed], ?_, ?_, ?_⟩
      · rw [hT', List.filter_append, hF]
        have : N1.filter (fun r => !r.ing) = N1 := by
          simp only [List.filter_eq_self]; intro n hn; simp [hjrB n (hN1B n hn)]
        rw [this]; simp
      · intro r hr; exact hnc r (by rw [hN]; simpa [List.append_assoc] using hr)
      · rw [hT']; intro t ht m hm; simp only [List.mem_append] at ht
        rcases ht with ht | ht
        · exact hTN t ht m (by rw [hN]; simp [hm])
        · exact h.sealedLt t (by rw [hSM]; simp [ht]) m hm
      · rw [hT']
        rcases hA with rfl | ⟨hZ, A', c, rfl, hc, hct⟩
        · left; rfl
        · right
          refine ⟨hZ, A', c, rfl, hc, ?_⟩
          intro t ht; simp only [List.mem_append] at ht
          rcases ht with ht | ht
          · exact hct t ht
          · rcases hAc t (hN1B t ht) with he | ⟨A'', c', he, _, hle⟩
            · simp at he
            · have := List.append_inj_right' he (by simp)
              simp at this; rw [this]; exact hle

/-- lowering the observed highest persisted seqno (tombstones were evicted) -/
theorem cov_setPersisted (k : KsL) (rk : List Rec) (q : Option Nat) (h : Cov k rk)
    (hq : ∀ a, q = some a → ∃ b, k.persisted = some b ∧ a ≤ b)
    (hphys : ({ k with persisted := q } : KsL).physOk = true) : Cov { k with persisted := q } rk := by
  refine ⟨h.jr, h.noClearT, h.ingPut, h.sortedJ, h.sortedT, h.sealedLt, ?_, ?_, hphys, h.struct⟩
  · intro a ha
    obtain ⟨b, hb, hab⟩ := hq a ha
    obtain ⟨t, ht, hle⟩ := h.persLe b hb
    exact ⟨t, ht, by omega⟩
  · intro m hm
    exact above_of_le k.persisted q m hq (h.persMem m hm)

theorem cov_lower (k : KsL) (rk : List Rec) (v : Option Nat) (h : Cov k rk)
    (hphys : (k.lowerPersisted v).physOk = true) : Cov (k.lowerPersisted v) rk := by
  unfold KsL.lowerPersisted at hphys ⊢
  split
  · rename_i p x hp
    split
    · rename_i hx
      simp only [hp, hx, if_true] at hphys
      exact cov_setPersisted k rk (some x) h (by intro a ha; cases ha; exact ⟨_, hp, hx⟩) hphys
    · exact h
  · rename_i p hp
    simp only [hp] at hphys
    exact cov_setPersisted k rk none h (by simp) hphys
  · exact h

theorem pairwise_const (L : List Rec) (g : Nat) (h : ∀ r ∈ L, r.seqno = g) : SeqSorted L := by
  induction L with
  | nil => exact List.Pairwise.nil
  | cons a r ih =>
    refine List.Pairwise.cons ?_ (ih fun x hx => h x (by simp [hx]))
    intro b hb
    rw [h a (by simp), h b (by simp [hb])]
    exact Nat.le_refl _

/-- bulk ingestion of values into a keyspace whose memtables were just flushed -/
theorem cov_ingest (k : KsL) (rk : List Rec) (recs : List Rec) (g : Nat) (h : Cov k rk)
    (hsm : k.sealedMem = []) (hm : k.mem = []) (hne : recs ≠ [])
    (hrecs : ∀ r ∈ recs, r.seqno = g ∧ r.ing = true ∧ r.op.isDel = false ∧ r.op.isClear = false)
    (hg : ∀ t ∈ k.tables, t.seqno < g) (hgj : ∀ r ∈ rk, r.seqno ≤ g) :
    Cov { k with tables := k.tables ++ recs, persisted := optMax k.persisted (some g) } rk := by
  obtain ⟨A, Z, F1, Y, N, hrk, hF, hmem, hnc, hTN, hA⟩ := h.struct
  rw [hsm, hm] at hmem
  have hY : Y = [] := by cases Y <;> simp_all
  have hN : N = [] := by cases N <;> simp_all
  subst hY; subst hN
  obtain ⟨q, hq, hgq, hpq, hor⟩ := optMax_spec k.persisted g
  have hqg : q = g := by
    rcases hor with h1 | h1
    · exact h1
    · obtain ⟨t, ht, hle⟩ := h.persLe q h1
      have := hg t ht
      omega
  obtain ⟨r0, hr0⟩ := List.exists_mem_of_ne_nil recs hne
  refine ⟨h.jr, ?_, ?_, h.sortedJ, ?_, by simp [hsm], ?_, by simp [hsm, hm], ?_, ?_⟩
  · intro r hr; simp only [List.mem_append] at hr
    rcases hr with hr | hr
    · exact h.noClearT r hr
    · exact (hrecs r hr).2.2.2
  · intro r hr hi; simp only [List.mem_append] at hr
    rcases hr with hr | hr
    · exact h.ingPut r hr hi
    · exact (hrecs r hr).2.2.1
  · unfold SeqSorted; rw [List.pairwise_append]
    refine ⟨h.sortedT, pairwise_const recs g (fun r hr => (hrecs r hr).1), ?_⟩
    intro t ht r hr; rw [(hrecs r hr).1]; exact Nat.le_of_lt (hg t ht)
  · intro a ha
    simp only [hq] at ha; cases ha
    exact ⟨r0, by simp [hr0], by rw [(hrecs r0 hr0).1, hqg]; exact Nat.le_refl _⟩
  · simp only [KsL.physOk, hq]
    have : (k.tables ++ recs).filter (above (some q)) = [] := by
      apply filter_above_none
      intro r hr; simp only [List.mem_append] at hr
      simp only [above, decide_eq_false_iff_not]
      rcases hr with hr | hr
      · have := hg r hr; omega
      · rw [(hrecs r hr).1]; omega
    rw [this]; rfl
  · refine ⟨A, Z, F1, [], [], hrk, ?_, by simp [hsm, hm], hnc, by simp, ?_⟩
    · rw [List.filter_append, hF]
      have : recs.filter (fun r => !r.ing) = [] := by
        simp only [List.filter_eq_nil_iff]; intro r hr; simp [(hrecs r hr).2.1]
      rw [this]; simp
    · rcases hA with rfl | ⟨hZ, A', c, rfl, hc, hct⟩
      · left; rfl
      · right
        refine ⟨hZ, A', c, rfl, hc, ?_⟩
        intro t ht; simp only [List.mem_append] at ht
        rcases ht with ht | ht
        · exact hct t ht
        · rw [(hrecs t ht).1]; exact hgj c (by rw [hrk]; simp)

end Fjall.Db

namespace Fjall.Db
open Fjall Fjall.Spec

/-! ### journal eviction and memory re-partition -/

theorem sorted_suffix (D R : List Rec) (h : SeqSorted (D ++ R)) : SeqSorted R :=
  (List.pairwise_append.mp h).2.1

/-- **Evicting journals whose records are no longer in memory keeps coverage**: the records of the
    evicted journals (`D`, a prefix of the keyspace's records) are all reflected in the tables or
    superseded by a later `clear`. -/
theorem cov_evict (k : KsL) (rk D rk' : List Rec) (h : Cov k rk) (hsplit : rk = D ++ rk')
    (hD : ∀ d ∈ D, d ∉ k.sealedMem ++ k.mem) : Cov k rk' := by
  obtain ⟨A, Z, F1, Y, N, hrk, hF, hmem, hnc, hTN, hA⟩ := h.struct
  have hjr : ∀ r ∈ rk', r.ing = false := fun r hr => h.jr r (by rw [hsplit]; simp [hr])
  have hsj : SeqSorted rk' := sorted_suffix D rk' (hsplit ▸ h.sortedJ)
  -- the cut lies inside `A ++ F1`
  have hcut : ∃ C, A ++ F1 = D ++ C ∧ rk' = C ++ (Y ++ N) := by
    have e : (A ++ F1) ++ (Y ++ N) = D ++ rk' := by rw [← hsplit, hrk]; simp
    rcases List.append_eq_append_iff.mp e with ⟨D', hD', hYN⟩ | ⟨C, hAF, hrk'⟩
    · -- `D` reaches into the memory part: impossible unless that part of `D` is empty
      have hD'e : D' = [] := by
        cases D' with
        | nil => rfl
        | cons d ds =>
          exfalso
          have hdD : d ∈ D := by rw [hD']; simp
          have hdm : d ∈ k.sealedMem ++ k.mem := by rw [hmem, hYN]; simp
          exact hD d hdD hdm
      subst hD'e
      exact ⟨[], by simpa using hD'.symm, by simpa using hYN.symm⟩
    · exact ⟨C, hAF, hrk'⟩
  obtain ⟨C, hAF, hrk'⟩ := hcut
  refine ⟨hjr, h.noClearT, h.ingPut, hsj, h.sortedT, h.sealedLt, h.persLe, h.persMem, h.phys, ?_⟩
  rcases List.append_eq_append_iff.mp hAF with ⟨D2, hD2, hF1⟩ | ⟨A2, hA2, hC⟩
  · -- all of `A` and the part `D2` of `F1` are gone: `D2` joins the evicted part `Z`
    refine ⟨[], Z ++ D2, C, Y, N, by rw [hrk']; simp, by rw [hF, hF1]; simp, hmem, ?_, hTN, Or.inl rfl⟩
    intro r hr
    exact hnc r (by rw [hF1]; simp only [List.mem_append] at hr ⊢; rcases hr with (hr | hr) | hr <;> simp [hr])
  · -- only a part of `A` is gone
    refine ⟨A2, Z, F1, Y, N, by rw [hrk', hC]; simp, hF, hmem, hnc, hTN, ?_⟩
    rcases hA with rfl | ⟨hZ, A', c, hAc, hc, hct⟩
    · left
      have : D ++ A2 = [] := hA2.symm
      simp at this; exact this.2
    · by_cases hA2e : A2 = []
      · left; exact hA2e
      · right
        refine ⟨hZ, ?_⟩
        have e : D ++ A2 = A' ++ [c] := by rw [← hA2, hAc]
        rcases List.append_eq_append_iff.mp e with ⟨a', _, ha2⟩ | ⟨c', _, hc'⟩
        · exact ⟨a', c, ha2, hc, hct⟩
        · -- `[c] = c' ++ A2` with `A2 ≠ []`
          cases c' with
          | nil => simp at hc'; exact ⟨[], c, by simp [hc'], hc, hct⟩
          | cons x xs =>
            simp at hc'
            exact absurd hc'.2.2 hA2e

/-- coverage only looks at the memtables through `sealedMem ++ mem` and the strict order between
    the two -/
theorem cov_repartition (k : KsL) (rk : List Rec) (X Y : List Rec) (h : Cov k rk)
    (hcat : X ++ Y = k.sealedMem ++ k.mem) (hlt : ∀ x ∈ X, ∀ y ∈ Y, x.seqno < y.seqno) :
    Cov { k with sealedMem := X, mem := Y } rk := by
  obtain ⟨A, Z, F1, Y', N, hrk, hF, hmem, hnc, hTN, hA⟩ := h.struct
  refine ⟨h.jr, h.noClearT, h.ingPut, h.sortedJ, h.sortedT, hlt, h.persLe, ?_, h.phys, ?_⟩
  · intro m hm; exact h.persMem m (by rw [← hcat]; exact hm)
  · exact ⟨A, Z, F1, Y', N, hrk, hF, by rw [← hmem, ← hcat], hnc, hTN, hA⟩

theorem abs_repartition (k : KsL) (X Y : List Rec) (hcat : X ++ Y = k.sealedMem ++ k.mem) :
    ({ k with sealedMem := X, mem := Y } : KsL).abs = k.abs := by
  simp only [KsL.abs, List.append_assoc]
  rw [hcat]

end Fjall.Db
