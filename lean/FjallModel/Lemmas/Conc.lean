import FjallModel.Conc.Model
namespace Fjall.Conc
open Fjall Fjall.Spec

/-! ### lookups -/

theorem best_append (ks : KsId) (key : Key) (b : Option Nat) (l1 l2 : List Entry) (acc : Option Entry) :
    best ks key b (l1 ++ l2) acc = best ks key b l2 (best ks key b l1 acc) := by
  induction l1 generalizing acc with
  | nil => rfl
  | cons e r ih =>
    simp only [List.cons_append, best]
    split
    · cases acc with
      | none => exact ih _
      | some a => simp only; split <;> exact ih _
    · exact ih _

theorem best_nohit (ks : KsId) (key : Key) (b : Option Nat) (l : List Entry) (acc : Option Entry)
    (h : ∀ e ∈ l, e.hit ks key b = false) : best ks key b l acc = acc := by
  induction l generalizing acc with
  | nil => rfl
  | cons e r ih =>
    simp only [best, h e (by simp)]
    exact ih acc (fun e' he' => h e' (by simp [he']))

/-- entries at or above a view's instant are invisible to it -/
theorem lookup_append_invisible (l1 l2 : List Entry) (ks : KsId) (key : Key) (i : Nat)
    (h : ∀ e ∈ l2, i ≤ e.seqno) : lookup (l1 ++ l2) ks key (some i) = lookup l1 ks key (some i) := by
  simp only [lookup, best_append]
  rw [best_nohit _ _ _ l2]
  intro e he
  have := h e he
  simp only [Entry.hit, below, Bool.and_eq_false_iff, decide_eq_false_iff_not]
  right; omega

theorem specStore_append (a b : List (Nat × List Item)) : specStore (a ++ b) = specStore a ++ specStore b := by
  simp [specStore]

theorem specStore_single (sq : Nat) (items : List Item) : specStore [(sq, items)] = items.map (Item.entry sq) := by
  simp [specStore]

theorem entry_seqno (sq : Nat) (items : List Item) : ∀ e ∈ items.map (Item.entry sq), e.seqno = sq := by
  intro e he
  obtain ⟨it, _, rfl⟩ := List.mem_map.mp he
  rfl

@[simp] theorem setThread_counter (s : State) (t : Tid) (th : Thread) : (setThread s t th).counter = s.counter := rfl
@[simp] theorem setThread_visible (s : State) (t : Tid) (th : Thread) : (setThread s t th).visible = s.visible := rfl
@[simp] theorem setThread_floor (s : State) (t : Tid) (th : Thread) : (setThread s t th).floor = s.floor := rfl
@[simp] theorem setThread_lock (s : State) (t : Tid) (th : Thread) : (setThread s t th).lock = s.lock := rfl
@[simp] theorem setThread_store (s : State) (t : Tid) (th : Thread) : (setThread s t th).store = s.store := rfl
@[simp] theorem setThread_batches (s : State) (t : Tid) (th : Thread) : (setThread s t th).batches = s.batches := rfl
@[simp] theorem setThread_obs (s : State) (t : Tid) (th : Thread) : (setThread s t th).obs = s.obs := rfl
@[simp] theorem setThread_wm (s : State) (t : Tid) (th : Thread) : (setThread s t th).wm = s.wm := rfl
@[simp] theorem setThread_log (s : State) (t : Tid) (th : Thread) : (setThread s t th).log = s.log := rfl
@[simp] theorem setThread_threads (s : State) (t : Tid) (th : Thread) : (setThread s t th).threads = s.threads.set t th := rfl

/-! ### the invariant -/

def inflight (s : State) : Option Nat :=
  match s.lock with
  | some (_, .wDrawn sq _ _) => some sq
  | _ => none

def floored (s : State) : Bool :=
  match s.lock with
  | some (_, .wFloored _) => true
  | some (_, .wDrawn _ _ _) => true
  | _ => false

structure ThreadOk (counter : Nat) (infl : Option Nat) (wm : Nat) (th : Thread) : Prop where
  view : ∀ i, th.view = some i → i ≤ counter ∧ ∀ sq, infl = some sq → i ≤ sq
  loaded : ∀ v, th.phase = .sLoaded v → v ≤ counter
  drawn : ∀ sq, th.phase = .gDrawn sq → sq < counter
  wmView : ∀ i, th.view = some i → wm ≤ i
  wmLoaded : ∀ v, th.phase = .sLoaded v → wm ≤ v

def Shape (s : State) : Prop :=
  match s.lock with
  | some (_, .wDrawn sq done rest) =>
    ∃ bs, s.batches = bs ++ [(sq, done ++ rest)] ∧ s.store = specStore bs ++ done.map (Item.entry sq)
  | _ => s.store = specStore s.batches

structure Inv (s : State) : Prop where
  visLe : s.visible ≤ s.counter
  batLt : ∀ b ∈ s.batches, b.1 < s.counter
  batSorted : s.batches.Pairwise (fun a b => a.1 < b.1)
  floorNone : s.floor = none → floored s = false
  floorSome : ∀ F, s.floor = some F → F ≤ s.counter ∧ ∀ sq, inflight s = some sq → F ≤ sq
  thrOk : ∀ (t : Tid) (th : Thread), s.threads[t]? = some th → ThreadOk s.counter (inflight s) s.wm th
  wmVis : s.wm ≤ s.visible
  wmFloor : ∀ F, s.floor = some F → s.wm ≤ F
  shape : Shape s
  obsOk : ∀ o ∈ s.obs, o.view ≤ s.counter ∧ o.res = lookup (specStore s.batches) o.ks o.key (some o.view)

theorem get_set_cases {α : Type} (l : List α) (t j : Nat) (a b : α) (h : (l.set t a)[j]? = some b) :
    (j = t ∧ b = a) ∨ (j ≠ t ∧ l[j]? = some b) := by
  rw [List.getElem?_set] at h
  by_cases hj : t = j
  · subst hj
    simp only [if_true] at h
    split at h
    · left; exact ⟨rfl, by cases h; rfl⟩
    · cases h
  · simp only [hj, if_false] at h
    right; exact ⟨fun e => hj e.symm, h⟩

theorem threadOk_mono (c c' : Nat) (infl : Option Nat) (wm : Nat) (th : Thread) (hc : c ≤ c') (h : ThreadOk c infl wm th) :
    ThreadOk c' infl wm th :=
  ⟨fun i hi => ⟨Nat.le_trans (h.view i hi).1 hc, (h.view i hi).2⟩,
   fun v hv => Nat.le_trans (h.loaded v hv) hc, fun sq hs => Nat.lt_of_lt_of_le (h.drawn sq hs) hc, h.wmView, h.wmLoaded⟩

theorem threadOk_noInfl (c : Nat) (infl : Option Nat) (wm : Nat) (th : Thread) (h : ThreadOk c infl wm th) :
    ThreadOk c none wm th :=
  ⟨fun i hi => ⟨(h.view i hi).1, by simp⟩, h.loaded, h.drawn, h.wmView, h.wmLoaded⟩

theorem floored_false_inflight (s : State) (h : floored s = false) : inflight s = none := by
  unfold floored at h; unfold inflight
  split <;> simp_all

theorem natMax_le (a b c : Nat) (ha : a ≤ c) (hb : b ≤ c) : natMax a b ≤ c := by
  unfold natMax; split <;> assumption

theorem inv_init (progs : List (List Cmd)) : Inv (init progs) := by
  refine {
    visLe := Nat.le_refl _
    batLt := by simp [init]
    batSorted := by simp [init]
    floorNone := by intro _; rfl
    floorSome := by simp [init]
    thrOk := ?_
    shape := by simp [Shape, init, specStore]
    obsOk := by simp [init]
    wmVis := Nat.le_refl _
    wmFloor := by simp [init] }
  intro t th h
  simp only [init, List.getElem?_map] at h
  cases hp : progs[t]? with
  | none => simp [hp] at h
  | some p =>
    simp only [hp, Option.map_some, Option.some.injEq] at h
    subst h
    exact ⟨by simp, by simp, by simp, by simp, by simp⟩

theorem thrOk_set (s : State) (t : Tid) (th' : Thread) (c : Nat) (infl : Option Nat) (wm : Nat)
    (hall : ∀ (t' : Tid) (x : Thread), s.threads[t']? = some x → ThreadOk c infl wm x) (hnew : ThreadOk c infl wm th') :
    ∀ (t' : Tid) (x : Thread), (s.threads.set t th')[t']? = some x → ThreadOk c infl wm x := by
  intro t' x hx
  rcases get_set_cases _ _ _ _ _ hx with ⟨_, rfl⟩ | ⟨_, hx'⟩
  · exact hnew
  · exact hall t' x hx'

/-! ### the tracker GC -/

theorem natMin_le_left (a b : Nat) : natMin a b ≤ a := by unfold natMin; split <;> omega
theorem natMin_le_right (a b : Nat) : natMin a b ≤ b := by unfold natMin; split <;> omega

theorem foldl_min_le (l : List Thread) (t0 : Nat) :
    l.foldl viewMin t0 ≤ t0 ∧ ∀ th ∈ l, ∀ i, th.view = some i → l.foldl viewMin t0 ≤ i := by
  induction l generalizing t0 with
  | nil => exact ⟨Nat.le_refl _, by simp⟩
  | cons a r ih =>
    simp only [List.foldl_cons, viewMin]
    cases hv : a.view with
    | none =>
      simp only
      obtain ⟨h1, h2⟩ := ih t0
      refine ⟨h1, ?_⟩
      intro th hth i hi
      simp only [List.mem_cons] at hth
      rcases hth with rfl | hth
      · rw [hv] at hi; cases hi
      · exact h2 th hth i hi
    | some j =>
      simp only
      obtain ⟨h1, h2⟩ := ih (natMin t0 j)
      refine ⟨Nat.le_trans h1 (natMin_le_left _ _), ?_⟩
      intro th hth i hi
      simp only [List.mem_cons] at hth
      rcases hth with rfl | hth
      · rw [hv] at hi; cases hi; exact Nat.le_trans h1 (natMin_le_right _ _)
      · exact h2 th hth i hi

theorem instantOf_le (cfg : Cfg) (hcfg : cfg.useFloor = true) (s : State) (v : Nat) :
    instantOf cfg s v ≤ v ∧ ∀ F, s.floor = some F → instantOf cfg s v ≤ F := by
  simp only [instantOf, hcfg, if_true]
  cases hf : s.floor with
  | none => exact ⟨Nat.le_refl _, by simp⟩
  | some F =>
    simp only
    split
    · rename_i h; exact ⟨Nat.le_refl _, by intro F' hF'; cases hF'; exact h⟩
    · rename_i h; exact ⟨by omega, by intro F' hF'; cases hF'; exact Nat.le_refl _⟩

/-- what the GC may set the watermark to is below every live view, the visible seqno and the floor -/
theorem gcWm_ok (cfg : Cfg) (hcfg : cfg.useFloor = true) (s : State) (h : Inv s) :
    gcWm cfg s ≤ s.visible ∧ (∀ F, s.floor = some F → gcWm cfg s ≤ F) ∧
    ∀ (t : Tid) (th : Thread) (i : Nat), s.threads[t]? = some th → th.view = some i → gcWm cfg s ≤ i := by
  obtain ⟨i1, i2⟩ := instantOf_le cfg hcfg s s.visible
  obtain ⟨f1, f2⟩ := foldl_min_le s.threads (instantOf cfg s s.visible)
  simp only [gcWm]
  refine ⟨natMax_le _ _ _ h.wmVis (by omega), ?_, ?_⟩
  · intro F hF
    exact natMax_le _ _ _ (h.wmFloor F hF) (by have := i2 F hF; omega)
  · intro t th i hth hv
    have hm : th ∈ s.threads := List.mem_of_getElem? hth
    exact natMax_le _ _ _ ((h.thrOk t th hth).wmView i hv) (by have := f2 th hm i hv; omega)

theorem not_loading (s : State) (h : loading s = false) (t : Tid) (th : Thread) (hth : s.threads[t]? = some th) :
    ∀ v, th.phase ≠ .sLoaded v := by
  intro v hv
  have hm : th ∈ s.threads := List.mem_of_getElem? hth
  simp only [loading, List.any_eq_false] at h
  have := h th hm
  rw [hv] at this
  simp at this

/-- all threads stay fine when the watermark moves to what the GC computes (nobody is loading) -/
theorem thrOk_gc (cfg : Cfg) (hcfg : cfg.useFloor = true) (s : State) (h : Inv s) (hl : loading s = false) :
    ∀ (t : Tid) (th : Thread), s.threads[t]? = some th → ThreadOk s.counter (inflight s) (gcWm cfg s) th := by
  intro t th hth
  have ok := h.thrOk t th hth
  exact ⟨ok.view, ok.loaded, ok.drawn, fun i hi => (gcWm_ok cfg hcfg s h).2.2 t th i hth hi,
    fun v hv => absurd hv (not_loading s hl t th hth v)⟩

/-! ### steps of the holder of the journal mutex -/

theorem inv_locked (cfg : Cfg) (hcfg : cfg.useFloor = true) (s s' : State) (t : Tid) (th : Thread) (ph : LPhase)
    (hth : s.threads[t]? = some th) (hl : s.lock = some (t, ph)) (hstep : lockedStep cfg s t th ph = some s')
    (h : Inv s) : Inv s' := by
  have hsh := h.shape
  cases ph with
  | wLocked items =>
    simp only [lockedStep, Option.some.injEq] at hstep; subst hstep
    have hinf : inflight s = none := by simp [inflight, hl]
    exact { h with
      floorNone := by simp
      floorSome := by
        intro F hF
        simp only [Option.some.injEq] at hF
        subst hF
        exact ⟨h.visLe, by simp [inflight]⟩
      thrOk := by
        intro t' th' ht'
        have := h.thrOk t' th' ht'
        rw [hinf] at this
        simpa [inflight] using this
      shape := by simp only [Shape, hl] at hsh ⊢; exact hsh
      wmFloor := by intro F hF; simp only [Option.some.injEq] at hF; subst hF; exact h.wmVis }
  | wFloored items =>
    simp only [lockedStep, Option.some.injEq] at hstep; subst hstep
    have hfl : s.floor ≠ none := by
      intro hn
      have := h.floorNone hn
      simp [floored, hl] at this
    exact {
      visLe := Nat.le_succ_of_le h.visLe
      batLt := by
        intro b hb
        simp only [List.mem_append, List.mem_singleton] at hb
        rcases hb with hb | rfl
        · exact Nat.lt_succ_of_lt (h.batLt b hb)
        · exact Nat.lt_succ_self _
      batSorted := by
        simp only [List.pairwise_append]
        refine ⟨h.batSorted, List.pairwise_singleton _ _, ?_⟩
        intro a ha b hb
        simp only [List.mem_singleton] at hb
        subst hb
        exact h.batLt a ha
      floorNone := by intro hn; exact absurd hn hfl
      floorSome := by
        intro F hF
        have := (h.floorSome F hF).1
        refine ⟨Nat.le_succ_of_le this, ?_⟩
        intro sq hsq
        simp only [inflight, Option.some.injEq] at hsq
        omega
      thrOk := by
        intro t' th' ht'
        have ok := h.thrOk t' th' ht'
        refine ⟨fun i hi => ⟨Nat.le_succ_of_le (ok.view i hi).1, ?_⟩, fun v hv => Nat.le_succ_of_le (ok.loaded v hv),
          fun sq hs => Nat.lt_succ_of_lt (ok.drawn sq hs), ok.wmView, ok.wmLoaded⟩
        intro sq hsq
        simp only [inflight, Option.some.injEq] at hsq
        have := (ok.view i hi).1
        omega
      shape := by
        simp only [Shape, hl] at hsh ⊢
        exact ⟨s.batches, by simp, by simp [hsh]⟩
      obsOk := by
        intro o ho
        obtain ⟨h1, h2⟩ := h.obsOk o ho
        refine ⟨Nat.le_succ_of_le h1, ?_⟩
        rw [specStore_append, specStore_single, lookup_append_invisible _ _ _ _ _ (by
          intro e he; rw [entry_seqno _ _ e he]; exact h1)]
        exact h2
      wmVis := h.wmVis
      wmFloor := h.wmFloor }
  | wDrawn sq done rest =>
    cases rest with
    | cons it rest =>
      simp only [lockedStep, Option.some.injEq] at hstep; subst hstep
      have hinf : inflight s = some sq := by simp [inflight, hl]
      exact { h with
        floorNone := by intro hn; have := h.floorNone hn; simp [floored, hl] at this
        floorSome := by
          intro F hF
          refine ⟨(h.floorSome F hF).1, ?_⟩
          intro sq' hsq'
          simp only [inflight, Option.some.injEq] at hsq'
          subst hsq'
          exact (h.floorSome F hF).2 sq hinf
        thrOk := by
          intro t' th' ht'
          have := h.thrOk t' th' ht'
          rw [hinf] at this
          simpa [inflight] using this
        shape := by
          simp only [Shape, hl] at hsh ⊢
          obtain ⟨bs, hb, hs⟩ := hsh
          exact ⟨bs, by simp [hb], by simp [hs]⟩ }
    | nil =>
      simp only [lockedStep, Option.some.injEq] at hstep; subst hstep
      simp only [Shape, hl] at hsh
      obtain ⟨bs, hb, hs⟩ := hsh
      have hsq : sq < s.counter := h.batLt (sq, done ++ []) (by rw [hb]; simp)
      exact { h with
        visLe := natMax_le _ _ _ h.visLe hsq
        floorNone := by intro _; rfl
        floorSome := by simp
        thrOk := by
          intro t' th' ht'
          have := threadOk_noInfl _ _ _ _ (h.thrOk t' th' ht')
          simpa [inflight] using this
        shape := by
          simp only [Shape]
          rw [hs, hb, specStore_append, specStore_single]
          simp
        wmVis := by
          have := h.wmVis
          simp only [natMax]; split <;> omega
        wmFloor := by simp }
  | wPublished =>
    simp only [lockedStep, Option.some.injEq] at hstep; subst hstep
    have hinf : inflight s = none := by simp [inflight, hl]
    exact { h with
      floorNone := by intro _; rfl
      floorSome := by intro F hF; exact ⟨(h.floorSome F hF).1, by simp [inflight]⟩
      thrOk := by
        have hall : ∀ (t' : Tid) (x : Thread), s.threads[t']? = some x → ThreadOk s.counter none s.wm x := by
          intro t' x hx; have := h.thrOk t' x hx; rw [hinf] at this; exact this
        have ok := hall t th hth
        exact thrOk_set s t _ s.counter none s.wm hall ⟨ok.view, ok.loaded, ok.drawn, ok.wmView, ok.wmLoaded⟩
      shape := by simp only [Shape, hl] at hsh ⊢; exact hsh }
  | rLocked =>
    simp only [lockedStep, Option.some.injEq] at hstep; subst hstep
    have hinf : inflight s = none := by simp [inflight, hl]
    exact { h with
      floorNone := by intro _; rfl
      floorSome := by intro F hF; exact ⟨(h.floorSome F hF).1, by simp [inflight]⟩
      thrOk := by
        have hall : ∀ (t' : Tid) (x : Thread), s.threads[t']? = some x → ThreadOk s.counter none s.wm x := by
          intro t' x hx; have := h.thrOk t' x hx; rw [hinf] at this; exact this
        have ok := hall t th hth
        exact thrOk_set s t _ s.counter none s.wm hall ⟨ok.view, by simp, by simp, ok.wmView, by simp⟩
      shape := by simp only [Shape, hl] at hsh ⊢; exact hsh }
  | iLocked items =>
    simp only [lockedStep, Option.some.injEq] at hstep; subst hstep
    have hinf : inflight s = none := by simp [inflight, hl]
    simp only [Shape, hl] at hsh
    exact {
      visLe := natMax_le _ _ _ (Nat.le_succ_of_le h.visLe) (Nat.le_refl _)
      batLt := by
        intro b hb
        simp only [List.mem_append, List.mem_singleton] at hb
        rcases hb with hb | rfl
        · exact Nat.lt_succ_of_lt (h.batLt b hb)
        · exact Nat.lt_succ_self _
      batSorted := by
        simp only [List.pairwise_append]
        refine ⟨h.batSorted, List.pairwise_singleton _ _, ?_⟩
        intro a ha b hb
        simp only [List.mem_singleton] at hb
        subst hb
        exact h.batLt a ha
      floorNone := by intro _; rfl
      floorSome := by intro F hF; exact ⟨Nat.le_succ_of_le (h.floorSome F hF).1, by simp [inflight]⟩
      thrOk := by
        intro t' th' ht'
        have ok := h.thrOk t' th' ht'
        exact ⟨fun i hi => ⟨Nat.le_succ_of_le (ok.view i hi).1, by simp [inflight]⟩,
          fun v hv => Nat.le_succ_of_le (ok.loaded v hv), fun sq hs => Nat.lt_succ_of_lt (ok.drawn sq hs), ok.wmView, ok.wmLoaded⟩
      shape := by
        simp only [Shape]
        rw [hsh, specStore_append, specStore_single]
      obsOk := by
        intro o ho
        obtain ⟨h1, h2⟩ := h.obsOk o ho
        refine ⟨Nat.le_succ_of_le h1, ?_⟩
        rw [specStore_append, specStore_single, lookup_append_invisible _ _ _ _ _ (by
          intro e he; rw [entry_seqno _ _ e he]; exact h1)]
        exact h2
      wmVis := by
        have := h.wmVis
        simp only [natMax]; split <;> omega
      wmFloor := h.wmFloor }
  | iGc =>
    simp only [lockedStep] at hstep
    split at hstep
    · cases hstep
    · rename_i hload
      simp only [Option.some.injEq] at hstep; subst hstep
      have hload' : loading s = false := by simpa using hload
      have hinf : inflight s = none := by simp [inflight, hl]
      obtain ⟨g1, g2, _⟩ := gcWm_ok cfg hcfg s h
      exact { h with
        floorNone := by intro hn; have := h.floorNone hn; simp [floored, hl] at this ⊢
        floorSome := by intro F hF; exact ⟨(h.floorSome F hF).1, by simp [inflight]⟩
        thrOk := by
          intro t' th' ht'
          have := thrOk_gc cfg hcfg s h hload' t' th' ht'
          rw [hinf] at this
          simpa [inflight] using this
        shape := by simp only [Shape, hl] at hsh ⊢; exact hsh
        wmVis := g1
        wmFloor := g2 }

/-! ### steps of threads outside the critical section -/

/-- what a view sees of the store equals what it sees of the completed writes -/
theorem read_correct (s : State) (h : Inv s) (ks : KsId) (key : Key) (i : Nat)
    (hi : ∀ sq, inflight s = some sq → i ≤ sq) :
    lookup s.store ks key (some i) = lookup (specStore s.batches) ks key (some i) := by
  have hsh := h.shape
  unfold Shape at hsh
  split at hsh
  · rename_i _ sq done rest hl
    obtain ⟨bs, hb, hs⟩ := hsh
    have hisq : i ≤ sq := hi sq (by simp [inflight, hl])
    rw [hs, hb, specStore_append, specStore_single]
    rw [lookup_append_invisible _ _ _ _ _ (by intro e he; rw [entry_seqno _ _ e he]; exact hisq)]
    rw [lookup_append_invisible _ _ _ _ _ (by intro e he; rw [entry_seqno _ _ e he]; exact hisq)]
  · rw [hsh]

theorem inv_acquire (s : State) (t : Tid) (ph : LPhase) (h : Inv s) (hl : s.lock = none)
    (hph : ∀ sq d r, ph ≠ .wDrawn sq d r) (hfl : ∀ items, ph ≠ .wFloored items) (log' : List Ev) :
    Inv { s with lock := some (t, ph), log := log' } := by
  have hinf : inflight s = none := by simp [inflight, hl]
  have hinf' : inflight { s with lock := some (t, ph), log := log' } = none := by
    simp only [inflight]
    cases ph <;> simp_all
  exact { h with
    floorNone := by
      intro _
      simp only [floored]
      cases ph <;> simp_all
    floorSome := by intro F hF; exact ⟨(h.floorSome F hF).1, by rw [hinf']; simp⟩
    thrOk := by
      intro t' th' ht'
      have := h.thrOk t' th' ht'
      rw [hinf] at this; rw [hinf']; exact this
    shape := by
      have := h.shape
      simp only [Shape, hl] at this
      simp only [Shape]
      cases ph <;> simp_all }

theorem inv_free (cfg : Cfg) (hcfg : cfg.useFloor = true) (s s' : State) (t : Tid) (th : Thread)
    (hth : s.threads[t]? = some th) (hstep : freeStep cfg s t th = some s') (h : Inv s) : Inv s' := by
  have ok := h.thrOk t th hth
  unfold freeStep at hstep
  split at hstep
  · -- sLoaded v: the floor is read, the view is created
    rename_i v hph
    simp only [Option.some.injEq] at hstep; subst hstep
    have hv := ok.loaded v hph
    have hinst : instantOf cfg s v ≤ s.counter ∧ ∀ sq, inflight s = some sq → instantOf cfg s v ≤ sq := by
      simp only [instantOf, hcfg, if_true]
      cases hf : s.floor with
      | none =>
        simp only
        refine ⟨hv, ?_⟩
        rw [floored_false_inflight s (h.floorNone hf)]; simp
      | some F =>
        simp only
        obtain ⟨h1, h2⟩ := h.floorSome F hf
        split
        · rename_i hvF; exact ⟨hv, fun sq hsq => Nat.le_trans hvF (h2 sq hsq)⟩
        · exact ⟨h1, h2⟩
    have hwm : s.wm ≤ instantOf cfg s v := by
      have hwv := ok.wmLoaded v hph
      simp only [instantOf, hcfg, if_true]
      cases hf : s.floor with
      | none => exact hwv
      | some F =>
        simp only
        split
        · exact hwv
        · exact h.wmFloor F hf
    exact { h with
      thrOk := thrOk_set s t _ s.counter (inflight s) s.wm h.thrOk
        ⟨by intro i hi; simp only [Option.some.injEq] at hi; subst hi; exact hinst, by simp, by simp,
         by intro i hi; simp only [Option.some.injEq] at hi; subst hi; exact hwm, by simp⟩
      shape := h.shape }
  · -- gDrawn: visible advances past the registration's seqno
    rename_i sq hph
    simp only [Option.some.injEq] at hstep; subst hstep
    have hsq := ok.drawn sq hph
    exact { h with
      visLe := natMax_le _ _ _ h.visLe hsq
      thrOk := thrOk_set s t _ s.counter (inflight s) s.wm h.thrOk ⟨ok.view, by simp, by simp, ok.wmView, by simp⟩
      shape := h.shape
      wmVis := by have := h.wmVis; simp only [natMax, setThread_wm, setThread_visible]; split <;> omega }
  · cases hstep
  · -- write: take the journal mutex
    split at hstep
    · cases hstep
    · rename_i hl
      simp only [Option.some.injEq] at hstep; subst hstep
      exact inv_acquire s t _ h hl (by simp) (by simp) _
  · -- rotate: take the journal mutex
    split at hstep
    · cases hstep
    · rename_i hl
      simp only [Option.some.injEq] at hstep; subst hstep
      have := inv_acquire s t .rLocked h hl (by simp) (by simp) s.log
      exact this
  · -- needGc: the tracker GC after a rotation
    split at hstep
    · cases hstep
    · rename_i hph hload
      simp only [Option.some.injEq] at hstep; subst hstep
      have hload' : loading s = false := by simpa using hload
      obtain ⟨g1, g2, _⟩ := gcWm_ok cfg hcfg s h
      have hall := thrOk_gc cfg hcfg s h hload'
      have ok' := hall t th hth
      exact { h with
        thrOk := thrOk_set s t _ s.counter (inflight s) (gcWm cfg s) hall ⟨ok'.view, by simp, by simp, ok'.wmView, by simp⟩
        shape := h.shape
        wmVis := g1
        wmFloor := g2 }
  · -- ingest: take the journal mutex
    split at hstep
    · cases hstep
    · rename_i hl
      simp only [Option.some.injEq] at hstep; subst hstep
      exact inv_acquire s t _ h hl (by simp) (by simp) _
  · -- gc
    split at hstep
    · cases hstep
    · rename_i hload
      simp only [Option.some.injEq] at hstep; subst hstep
      have hload' : loading s = false := by simpa using hload
      obtain ⟨g1, g2, _⟩ := gcWm_ok cfg hcfg s h
      have hall := thrOk_gc cfg hcfg s h hload'
      have ok' := hall t th hth
      exact { h with
        thrOk := thrOk_set s t _ s.counter (inflight s) (gcWm cfg s) hall ⟨ok'.view, ok'.loaded, ok'.drawn, ok'.wmView, ok'.wmLoaded⟩
        shape := h.shape
        wmVis := g1
        wmFloor := g2 }
  · -- close
    simp only [Option.some.injEq] at hstep; subst hstep
    exact { h with
      thrOk := thrOk_set s t _ s.counter (inflight s) s.wm h.thrOk ⟨by simp, ok.loaded, ok.drawn, by simp, ok.wmLoaded⟩
      shape := h.shape }
  · -- snap: the counter is read
    simp only [Option.some.injEq] at hstep; subst hstep
    exact { h with
      thrOk := thrOk_set s t _ s.counter (inflight s) s.wm h.thrOk
        ⟨ok.view, by intro v hv; simp only [Phase.sLoaded.injEq] at hv; subst hv; exact h.visLe, by simp, ok.wmView,
         by intro v hv; simp only [Phase.sLoaded.injEq] at hv; subst hv; exact h.wmVis⟩
      shape := h.shape }
  · -- read through the view
    split at hstep
    · simp only [Option.some.injEq] at hstep; subst hstep
      exact { h with
        thrOk := thrOk_set s t _ s.counter (inflight s) s.wm h.thrOk ⟨ok.view, ok.loaded, ok.drawn, ok.wmView, ok.wmLoaded⟩
        shape := h.shape }
    · rename_i i hview
      simp only [Option.some.injEq] at hstep; subst hstep
      obtain ⟨hi1, hi2⟩ := ok.view i hview
      exact { h with
        thrOk := thrOk_set s t _ s.counter (inflight s) s.wm h.thrOk ⟨ok.view, ok.loaded, ok.drawn, ok.wmView, ok.wmLoaded⟩
        shape := h.shape
        obsOk := by
          intro o ho
          simp only [List.mem_append, List.mem_singleton] at ho
          rcases ho with ho | rfl
          · exact h.obsOk o ho
          · exact ⟨hi1, read_correct s h _ _ i hi2⟩ }
  · -- readTop
    simp only [Option.some.injEq] at hstep; subst hstep
    exact { h with
      thrOk := thrOk_set s t _ s.counter (inflight s) s.wm h.thrOk ⟨ok.view, ok.loaded, ok.drawn, ok.wmView, ok.wmLoaded⟩
      shape := h.shape }
  · -- register: draw a seqno
    simp only [Option.some.injEq] at hstep; subst hstep
    exact { h with
      visLe := Nat.le_succ_of_le h.visLe
      batLt := fun b hb => Nat.lt_succ_of_lt (h.batLt b hb)
      floorSome := by intro F hF; exact ⟨Nat.le_succ_of_le (h.floorSome F hF).1, (h.floorSome F hF).2⟩
      thrOk := by
        apply thrOk_set s t _ (s.counter + 1) (inflight s) s.wm
        · intro t' x hx; exact threadOk_mono _ _ _ _ _ (Nat.le_succ _) (h.thrOk t' x hx)
        · exact ⟨fun i hi => ⟨Nat.le_succ_of_le (ok.view i hi).1, (ok.view i hi).2⟩, by simp,
            by intro sq hsq; simp only [Phase.gDrawn.injEq] at hsq; subst hsq; exact Nat.lt_succ_self _, ok.wmView, by simp⟩
      shape := h.shape
      obsOk := by intro o ho; exact ⟨Nat.le_succ_of_le (h.obsOk o ho).1, (h.obsOk o ho).2⟩ }

theorem step_inv (cfg : Cfg) (hcfg : cfg.useFloor = true) (s : State) (t : Tid) (h : Inv s) :
    Inv (step cfg s t) := by
  unfold step
  cases hs : stepT cfg s t with
  | none => exact h
  | some s' =>
    simp only [Option.getD_some]
    unfold stepT at hs
    split at hs
    · cases hs
    · rename_i th hth
      split at hs
      · rename_i hh ph hl
        split at hs
        · rename_i heq
          subst heq
          exact inv_locked cfg hcfg s s' _ th ph hth hl hs h
        · exact inv_free cfg hcfg s s' t th hth hs h
      · exact inv_free cfg hcfg s s' t th hth hs h

theorem run_inv (cfg : Cfg) (hcfg : cfg.useFloor = true) (s : State) (sched : List Tid) (h : Inv s) :
    Inv (run cfg s sched) := by
  induction sched generalizing s with
  | nil => exact h
  | cons t ts ih => exact ih _ (step_inv cfg hcfg s t h)

end Fjall.Conc
