import FjallModel.Conc.Model
namespace Fjall.Conc
open Fjall Fjall.Spec

/-! ### lookups -/

theorem best_append (ks : KsId) (key : Key) (b : Option Nat) (l1 l2 : List Entry) (acc : Option Entry) :
    best ks key b (l1 ++ l2) acc = best ks key b l2 (best ks key b l1 acc) := by
  induction l1 generalizing acc with
  | nil => rfl
  | cons e r ih =>
    simp only [List.cons_append, best]
    split
    · cases acc with
      | none => exact ih _
      | some a => simp only; split <;> exact ih _
    · exact ih _

theorem best_nohit (ks : KsId) (key : Key) (b : Option Nat) (l : List Entry) (acc : Option Entry)
    (h : ∀ e ∈ l, e.hit ks key b = false) : best ks key b l acc = acc := by
  induction l generalizing acc with
  | nil => rfl
  | cons e r ih =>
    simp only [best, h e (by simp)]
    exact ih acc (fun e' he' => h e' (by simp [he']))

/-- entries at or above a view's instant are invisible to it -/
theorem lookup_append_invisible (l1 l2 : List Entry) (ks : KsId) (key : Key) (i : Nat)
    (h : ∀ e ∈ l2, i ≤ e.seqno) : lookup (l1 ++ l2) ks key (some i) = lookup l1 ks key (some i) := by
  simp only [lookup, best_append]
  rw [best_nohit _ _ _ l2]
  intro e he
  have := h e he
  simp only [Entry.hit, below, Bool.and_eq_false_iff, decide_eq_false_iff_not]
  right; omega

theorem specStore_append (a b : List (Nat × List Item)) : specStore (a ++ b) = specStore a ++ specStore b := by
  simp [specStore]

theorem specStore_single (sq : Nat) (items : List Item) : specStore [(sq, items)] = items.map (Item.entry sq) := by
  simp [specStore]

theorem entry_seqno (sq : Nat) (items : List Item) : ∀ e ∈ items.map (Item.entry sq), e.seqno = sq := by
  intro e he
  obtain ⟨it, _, rfl⟩ := List.mem_map.mp he
  rfl

@[simp] theorem setThread_counter (s : State) (t : Tid) (th : Thread) : (setThread s t th).counter = s.counter := rfl
@[simp] theorem setThread_visible (s : State) (t : Tid) (th : Thread) : (setThread s t th).visible = s.visible := rfl
@[simp] theorem setThread_floor (s : State) (t : Tid) (th : Thread) : (setThread s t th).floor = s.floor := rfl
@[simp] theorem setThread_lock (s : State) (t : Tid) (th : Thread) : (setThread s t th).lock = s.lock := rfl
@[simp] theorem setThread_store (s : State) (t : Tid) (th : Thread) : (setThread s t th).store = s.store := rfl
@[simp] theorem setThread_batches (s : State) (t : Tid) (th : Thread) : (setThread s t th).batches = s.batches := rfl
@[simp] theorem setThread_obs (s : State) (t : Tid) (th : Thread) : (setThread s t th).obs = s.obs := rfl
@[simp] theorem setThread_log (s : State) (t : Tid) (th : Thread) : (setThread s t th).log = s.log := rfl
@[simp] theorem setThread_threads (s : State) (t : Tid) (th : Thread) : (setThread s t th).threads = s.threads.set t th := rfl

/-! ### the invariant -/

def inflight (s : State) : Option Nat :=
  match s.lock with
  | some (_, .wDrawn sq _ _) => some sq
  | _ => none

def floored (s : State) : Bool :=
  match s.lock with
  | some (_, .wFloored _) => true
  | some (_, .wDrawn _ _ _) => true
  | _ => false

structure ThreadOk (counter : Nat) (infl : Option Nat) (th : Thread) : Prop where
  view : ∀ i, th.view = some i → i ≤ counter ∧ ∀ sq, infl = some sq → i ≤ sq
  loaded : ∀ v, th.phase = .sLoaded v → v ≤ counter
  drawn : ∀ sq, th.phase = .gDrawn sq → sq < counter

def Shape (s : State) : Prop :=
  match s.lock with
  | some (_, .wDrawn sq done rest) =>
    ∃ bs, s.batches = bs ++ [(sq, done ++ rest)] ∧ s.store = specStore bs ++ done.map (Item.entry sq)
  | _ => s.store = specStore s.batches

structure Inv (s : State) : Prop where
  visLe : s.visible ≤ s.counter
  batLt : ∀ b ∈ s.batches, b.1 < s.counter
  batSorted : s.batches.Pairwise (fun a b => a.1 < b.1)
  floorNone : s.floor = none → floored s = false
  floorSome : ∀ F, s.floor = some F → F ≤ s.counter ∧ ∀ sq, inflight s = some sq → F ≤ sq
  thrOk : ∀ (t : Tid) (th : Thread), s.threads[t]? = some th → ThreadOk s.counter (inflight s) th
  shape : Shape s
  obsOk : ∀ o ∈ s.obs, o.view ≤ s.counter ∧ o.res = lookup (specStore s.batches) o.ks o.key (some o.view)

theorem get_set_cases {α : Type} (l : List α) (t j : Nat) (a b : α) (h : (l.set t a)[j]? = some b) :
    (j = t ∧ b = a) ∨ (j ≠ t ∧ l[j]? = some b) := by
  rw [List.getElem?_set] at h
  by_cases hj : t = j
  · subst hj
    simp only [if_true] at h
    split at h
    · left; exact ⟨rfl, by cases h; rfl⟩
    · cases h
  · simp only [hj, if_false] at h
    right; exact ⟨fun e => hj e.symm, h⟩

theorem threadOk_mono (c c' : Nat) (infl : Option Nat) (th : Thread) (hc : c ≤ c') (h : ThreadOk c infl th) :
    ThreadOk c' infl th :=
  ⟨fun i hi => ⟨Nat.le_trans (h.view i hi).1 hc, (h.view i hi).2⟩,
   fun v hv => Nat.le_trans (h.loaded v hv) hc, fun sq hs => Nat.lt_of_lt_of_le (h.drawn sq hs) hc⟩

theorem threadOk_noInfl (c : Nat) (infl : Option Nat) (th : Thread) (h : ThreadOk c infl th) :
    ThreadOk c none th :=
  ⟨fun i hi => ⟨(h.view i hi).1, by simp⟩, h.loaded, h.drawn⟩

theorem floored_false_inflight (s : State) (h : floored s = false) : inflight s = none := by
  unfold floored at h; unfold inflight
  split <;> simp_all

theorem natMax_le (a b c : Nat) (ha : a ≤ c) (hb : b ≤ c) : natMax a b ≤ c := by
  unfold natMax; split <;> assumption

theorem inv_init (progs : List (List Cmd)) : Inv (init progs) := by
  refine ⟨Nat.le_refl _, by simp [init], by simp [init], by intro _; rfl, by simp [init], ?_, by simp [Shape, init, specStore], by simp [init]⟩
  intro t th h
  simp only [init, List.getElem?_map] at h
  cases hp : progs[t]? with
  | none => simp [hp] at h
  | some p =>
    simp only [hp, Option.map_some, Option.some.injEq] at h
    subst h
    exact ⟨by simp, by simp, by simp⟩

/-! ### steps of the holder of the journal mutex -/

theorem inv_locked (s : State) (t : Tid) (th : Thread) (ph : LPhase) (hth : s.threads[t]? = some th)
    (hl : s.lock = some (t, ph)) (h : Inv s) : Inv (lockedStep s t th ph) := by
  have hsh := h.shape
  cases ph with
  | wLocked items =>
    simp only [lockedStep]
    have hinf : inflight s = none := by simp [inflight, hl]
    refine ⟨h.visLe, h.batLt, h.batSorted, by simp, ?_, ?_, ?_, h.obsOk⟩
    · intro F hF
      simp only [Option.some.injEq] at hF
      subst hF
      exact ⟨h.visLe, by simp [inflight]⟩
    · intro t' th' ht'
      have := h.thrOk t' th' ht'
      rw [hinf] at this
      simpa [inflight] using this
    · simp only [Shape, hl] at hsh ⊢; exact hsh
  | wFloored items =>
    simp only [lockedStep]
    have hinf : inflight s = none := by simp [inflight, hl]
    have hfl : s.floor ≠ none := by
      intro hn
      have := h.floorNone hn
      simp [floored, hl] at this
    refine ⟨Nat.le_succ_of_le h.visLe, ?_, ?_, by intro hn; exact absurd hn hfl, ?_, ?_, ?_, ?_⟩
    · intro b hb
      simp only [List.mem_append, List.mem_singleton] at hb
      rcases hb with hb | rfl
      · exact Nat.lt_succ_of_lt (h.batLt b hb)
      · exact Nat.lt_succ_self _
    · rw [List.pairwise_append]
      refine ⟨h.batSorted, List.pairwise_singleton _ _, ?_⟩
      intro a ha b hb
      simp only [List.mem_singleton] at hb
      subst hb
      exact h.batLt a ha
    · intro F hF
      have := (h.floorSome F hF).1
      refine ⟨Nat.le_succ_of_le this, ?_⟩
      intro sq hsq
      simp only [inflight, Option.some.injEq] at hsq
      omega
    · intro t' th' ht'
      have ok := h.thrOk t' th' ht'
      refine ⟨fun i hi => ⟨Nat.le_succ_of_le (ok.view i hi).1, ?_⟩, fun v hv => Nat.le_succ_of_le (ok.loaded v hv),
        fun sq hs => Nat.lt_succ_of_lt (ok.drawn sq hs)⟩
      intro sq hsq
      simp only [inflight, Option.some.injEq] at hsq
      have := (ok.view i hi).1
      omega
    · simp only [Shape, hl] at hsh ⊢
      exact ⟨s.batches, by simp, by simp [hsh]⟩
    · intro o ho
      obtain ⟨h1, h2⟩ := h.obsOk o ho
      refine ⟨Nat.le_succ_of_le h1, ?_⟩
      rw [specStore_append, specStore_single, lookup_append_invisible _ _ _ _ _ (by
        intro e he; rw [entry_seqno _ _ e he]; exact h1)]
      exact h2
  | wDrawn sq done rest =>
    cases rest with
    | cons it rest =>
      simp only [lockedStep]
      have hinf : inflight s = some sq := by simp [inflight, hl]
      refine ⟨h.visLe, h.batLt, h.batSorted, ?_, ?_, ?_, ?_, h.obsOk⟩
      · intro hn; have := h.floorNone hn; simp [floored, hl] at this
      · intro F hF
        refine ⟨(h.floorSome F hF).1, ?_⟩
        intro sq' hsq'
        simp only [inflight, Option.some.injEq] at hsq'
        subst hsq'
        exact (h.floorSome F hF).2 sq hinf
      · intro t' th' ht'
        have := h.thrOk t' th' ht'
        rw [hinf] at this
        simpa [inflight] using this
      · simp only [Shape, hl] at hsh ⊢
        obtain ⟨bs, hb, hs⟩ := hsh
        exact ⟨bs, by simp [hb], by simp [hs]⟩
    | nil =>
      simp only [lockedStep]
      simp only [Shape, hl] at hsh
      obtain ⟨bs, hb, hs⟩ := hsh
      have hsq : sq < s.counter := h.batLt (sq, done ++ []) (by rw [hb]; simp)
      refine ⟨natMax_le _ _ _ h.visLe hsq, h.batLt, h.batSorted, by intro _; rfl, by simp, ?_, ?_, h.obsOk⟩
      · intro t' th' ht'
        have := threadOk_noInfl _ _ _ (h.thrOk t' th' ht')
        simpa [inflight] using this
      · simp only [Shape]
        rw [hs, hb, specStore_append, specStore_single]
        simp
  | wPublished =>
    simp only [lockedStep]
    have hinf : inflight s = none := by simp [inflight, hl]
    refine ⟨h.visLe, h.batLt, h.batSorted, by intro _; rfl, ?_, ?_, ?_, h.obsOk⟩
    · intro F hF; exact ⟨(h.floorSome F hF).1, by simp [inflight]⟩
    · intro t' th' ht'
      simp only [setThread] at ht'
      rcases get_set_cases _ _ _ _ _ ht' with ⟨_, rfl⟩ | ⟨_, ht''⟩
      · have := h.thrOk t th hth
        rw [hinf] at this
        exact ⟨by simpa [inflight] using this.view, by simpa using this.loaded, by simpa using this.drawn⟩
      · have := h.thrOk t' th' ht''
        rw [hinf] at this
        simpa [inflight] using this
    · simp only [Shape, hl] at hsh ⊢; exact hsh
  | rLocked =>
    simp only [lockedStep]
    have hinf : inflight s = none := by simp [inflight, hl]
    refine ⟨h.visLe, h.batLt, h.batSorted, by intro _; rfl, ?_, ?_, ?_, h.obsOk⟩
    · intro F hF; exact ⟨(h.floorSome F hF).1, by simp [inflight]⟩
    · intro t' th' ht'
      simp only [setThread] at ht'
      rcases get_set_cases _ _ _ _ _ ht' with ⟨_, rfl⟩ | ⟨_, ht''⟩
      · have := h.thrOk t th hth
        rw [hinf] at this
        exact ⟨by simpa [inflight] using this.view, by simpa using this.loaded, by simpa using this.drawn⟩
      · have := h.thrOk t' th' ht''
        rw [hinf] at this
        simpa [inflight] using this
    · simp only [Shape, hl] at hsh ⊢; exact hsh

end Fjall.Conc

namespace Fjall.Conc
open Fjall Fjall.Spec

/-! ### steps of threads outside the critical section -/

theorem thrOk_set (s : State) (t : Tid) (th th' : Thread) (c : Nat) (infl : Option Nat)
    (hall : ∀ (t' : Tid) (x : Thread), s.threads[t']? = some x → ThreadOk c infl x) (hnew : ThreadOk c infl th') :
    ∀ (t' : Tid) (x : Thread), (s.threads.set t th')[t']? = some x → ThreadOk c infl x := by
  intro t' x hx
  rcases get_set_cases _ _ _ _ _ hx with ⟨_, rfl⟩ | ⟨_, hx'⟩
  · exact hnew
  · exact hall t' x hx'

/-- what a view sees of the store equals what it sees of the completed writes -/
theorem read_correct (s : State) (h : Inv s) (ks : KsId) (key : Key) (i : Nat)
    (hi : ∀ sq, inflight s = some sq → i ≤ sq) :
    lookup s.store ks key (some i) = lookup (specStore s.batches) ks key (some i) := by
  have hsh := h.shape
  unfold Shape at hsh
  split at hsh
  · rename_i _ sq done rest hl
    obtain ⟨bs, hb, hs⟩ := hsh
    have hisq : i ≤ sq := hi sq (by simp [inflight, hl])
    rw [hs, hb, specStore_append, specStore_single]
    rw [lookup_append_invisible _ _ _ _ _ (by intro e he; rw [entry_seqno _ _ e he]; exact hisq)]
    rw [lookup_append_invisible _ _ _ _ _ (by intro e he; rw [entry_seqno _ _ e he]; exact hisq)]
  · rw [hsh]

theorem inv_free (cfg : Cfg) (hcfg : cfg.useFloor = true) (s s' : State) (t : Tid) (th : Thread)
    (hth : s.threads[t]? = some th) (hstep : freeStep cfg s t th = some s') (h : Inv s) : Inv s' := by
  have ok := h.thrOk t th hth
  unfold freeStep at hstep
  split at hstep
  · -- sLoaded v: the floor is read, the view is created
    rename_i v hph
    simp only [Option.some.injEq] at hstep; subst hstep
    have hv := ok.loaded v hph
    have hinst : instantOf cfg s v ≤ s.counter ∧ ∀ sq, inflight s = some sq → instantOf cfg s v ≤ sq := by
      simp only [instantOf, hcfg, if_true]
      cases hf : s.floor with
      | none =>
        simp only
        refine ⟨hv, ?_⟩
        rw [floored_false_inflight s (h.floorNone hf)]; simp
      | some F =>
        simp only
        obtain ⟨h1, h2⟩ := h.floorSome F hf
        split
        · rename_i hvF; exact ⟨hv, fun sq hsq => Nat.le_trans hvF (h2 sq hsq)⟩
        · exact ⟨h1, h2⟩
    refine ⟨h.visLe, h.batLt, h.batSorted, h.floorNone, h.floorSome, ?_, ?_, h.obsOk⟩
    · apply thrOk_set s t th _ s.counter (inflight s) h.thrOk
      exact ⟨by intro i hi; simp only [Option.some.injEq] at hi; subst hi; exact hinst, by simp, by simp⟩
    · exact h.shape
  · -- gDrawn: visible advances past the registration's seqno
    rename_i sq hph
    simp only [Option.some.injEq] at hstep; subst hstep
    have hsq := ok.drawn sq hph
    refine ⟨natMax_le _ _ _ h.visLe hsq, h.batLt, h.batSorted, h.floorNone, h.floorSome, ?_, h.shape, h.obsOk⟩
    apply thrOk_set s t th _ s.counter (inflight s) h.thrOk
    exact ⟨ok.view, by simp, by simp⟩
  · cases hstep
  · -- write: take the journal mutex
    split at hstep
    · cases hstep
    · rename_i hl
      simp only [Option.some.injEq] at hstep; subst hstep
      have hinf : inflight s = none := by simp [inflight, hl]
      refine ⟨h.visLe, h.batLt, h.batSorted, by intro _; rfl, ?_, ?_, ?_, h.obsOk⟩
      · intro F hF; exact ⟨(h.floorSome F hF).1, by simp [inflight]⟩
      · intro t' th' ht'
        have := h.thrOk t' th' ht'
        rw [hinf] at this
        simpa [inflight] using this
      · have := h.shape
        simp only [Shape, hl] at this ⊢; exact this
  · -- rotate: take the journal mutex
    split at hstep
    · cases hstep
    · rename_i hl
      simp only [Option.some.injEq] at hstep; subst hstep
      have hinf : inflight s = none := by simp [inflight, hl]
      refine ⟨h.visLe, h.batLt, h.batSorted, by intro _; rfl, ?_, ?_, ?_, h.obsOk⟩
      · intro F hF; exact ⟨(h.floorSome F hF).1, by simp [inflight]⟩
      · intro t' th' ht'
        have := h.thrOk t' th' ht'
        rw [hinf] at this
        simpa [inflight] using this
      · have := h.shape
        simp only [Shape, hl] at this ⊢; exact this
  · -- snap: the counter is read
    simp only [Option.some.injEq] at hstep; subst hstep
    refine ⟨h.visLe, h.batLt, h.batSorted, h.floorNone, h.floorSome, ?_, h.shape, h.obsOk⟩
    apply thrOk_set s t th _ s.counter (inflight s) h.thrOk
    exact ⟨ok.view, by intro v hv; simp only [Phase.sLoaded.injEq] at hv; subst hv; exact h.visLe, by simp⟩
  · -- read through the view
    split at hstep
    · simp only [Option.some.injEq] at hstep; subst hstep
      refine ⟨h.visLe, h.batLt, h.batSorted, h.floorNone, h.floorSome, ?_, h.shape, h.obsOk⟩
      apply thrOk_set s t th _ s.counter (inflight s) h.thrOk
      exact ⟨ok.view, ok.loaded, ok.drawn⟩
    · rename_i i hview
      simp only [Option.some.injEq] at hstep; subst hstep
      obtain ⟨hi1, hi2⟩ := ok.view i hview
      refine ⟨h.visLe, h.batLt, h.batSorted, h.floorNone, h.floorSome, ?_, h.shape, ?_⟩
      · apply thrOk_set s t th _ s.counter (inflight s) h.thrOk
        exact ⟨ok.view, ok.loaded, ok.drawn⟩
      · intro o ho
        simp only [setThread_obs, List.mem_append, List.mem_singleton] at ho
        rcases ho with ho | rfl
        · exact h.obsOk o ho
        · exact ⟨hi1, read_correct s h _ _ i hi2⟩
  · -- readTop
    simp only [Option.some.injEq] at hstep; subst hstep
    refine ⟨h.visLe, h.batLt, h.batSorted, h.floorNone, h.floorSome, ?_, h.shape, h.obsOk⟩
    apply thrOk_set s t th _ s.counter (inflight s) h.thrOk
    exact ⟨ok.view, ok.loaded, ok.drawn⟩
  · -- register: draw a seqno
    simp only [Option.some.injEq] at hstep; subst hstep
    refine ⟨Nat.le_succ_of_le h.visLe, fun b hb => Nat.lt_succ_of_lt (h.batLt b hb), h.batSorted, h.floorNone, ?_, ?_, h.shape, ?_⟩
    · intro F hF; exact ⟨Nat.le_succ_of_le (h.floorSome F hF).1, (h.floorSome F hF).2⟩
    · apply thrOk_set s t th _ (s.counter + 1) (inflight s)
      · intro t' x hx; exact threadOk_mono _ _ _ _ (Nat.le_succ _) (h.thrOk t' x hx)
      · exact ⟨fun i hi => ⟨Nat.le_succ_of_le (ok.view i hi).1, (ok.view i hi).2⟩, by simp,
          by intro sq hsq; simp only [Phase.gDrawn.injEq] at hsq; subst hsq; exact Nat.lt_succ_self _⟩
    · intro o ho; exact ⟨Nat.le_succ_of_le (h.obsOk o ho).1, (h.obsOk o ho).2⟩

theorem step_inv (cfg : Cfg) (hcfg : cfg.useFloor = true) (s : State) (t : Tid) (h : Inv s) :
    Inv (step cfg s t) := by
  unfold step
  cases hs : stepT cfg s t with
  | none => exact h
  | some s' =>
    simp only [Option.getD_some]
    unfold stepT at hs
    split at hs
    · cases hs
    · rename_i th hth
      split at hs
      · rename_i hh ph hl
        split at hs
        · rename_i heq
          subst heq
          simp only [Option.some.injEq] at hs; subst hs
          exact inv_locked s _ th ph hth hl h
        · exact inv_free cfg hcfg s s' t th hth hs h
      · exact inv_free cfg hcfg s s' t th hth hs h

theorem run_inv (cfg : Cfg) (hcfg : cfg.useFloor = true) (s : State) (sched : List Tid) (h : Inv s) :
    Inv (run cfg s sched) := by
  induction sched generalizing s with
  | nil => exact h
  | cons t ts ih => exact ih _ (step_inv cfg hcfg s t h)

end Fjall.Conc
