import FjallModel.Mvcc.Filter
import FjallModel.Lemmas.Mvcc
namespace Fjall.Mvcc
open Fjall Fjall.Spec
open Fjall.Tx (TKind)

theorem applyVerdict_key (f : Filter) (e : VEntry) : (applyVerdict f e).key = e.key := by
  unfold applyVerdict; split
  · split <;> rfl
  · rfl

theorem applyVerdict_seqno (f : Filter) (e : VEntry) : (applyVerdict f e).seqno = e.seqno := by
  unfold applyVerdict; split
  · split <;> rfl
  · rfl

theorem applyVerdict_toVal (f : Filter) (e : VEntry) :
    (applyVerdict f e).toVal = filtered f e.key e.toVal := by
  unfold applyVerdict filtered VEntry.toVal
  by_cases hk : e.kind = .value
  · simp only [hk, if_true]
    cases f e.key <;> simp [hk]
  · simp [hk]

/-- the flattened content after mapping a segment: three blocks, the middle one mapped -/
theorem mapSeg_flatten (t : Tree) (f : Filter) (i n : Nat) :
    (t.mapSeg f i n).comps.flatten =
      (t.active ++ (t.sealed.flatten ++ (t.tables.take i).flatten)) ++
        ((((t.tables.drop i).take n).flatten).map (applyVerdict f) ++ (t.tables.drop (i + n)).flatten) := by
  simp [Tree.mapSeg, Tree.comps, List.flatten_append, List.map_flatten]

theorem orig_flatten (t : Tree) (i n : Nat) :
    t.comps.flatten = (t.active ++ (t.sealed.flatten ++ (t.tables.take i).flatten)) ++
        (((t.tables.drop i).take n).flatten ++ (t.tables.drop (i + n)).flatten) := by
  rw [comps_split t i n]; simp [List.flatten_append]

/-- mapping entries by a function that keeps key and seqno keeps `Distinct` -/
theorem distinct_map_block (X M Y : Run) (g : VEntry → VEntry) (hk : ∀ e, (g e).key = e.key)
    (hs : ∀ e, (g e).seqno = e.seqno) (h : Distinct (X ++ (M ++ Y))) : Distinct (X ++ (M.map g ++ Y)) := by
  unfold Distinct at h ⊢
  rw [List.pairwise_append] at h ⊢
  obtain ⟨h1, h2, h3⟩ := h
  rw [List.pairwise_append] at h2 ⊢
  obtain ⟨h4, h5, h6⟩ := h2
  refine ⟨h1, ⟨?_, h5, ?_⟩, ?_⟩
  · rw [List.pairwise_map]
    exact h4.imp fun {a b} hab hkk => by rw [hs, hs]; exact hab (by rw [← hk a, ← hk b]; exact hkk)
  · intro a ha b hb hkk
    obtain ⟨a0, ha0, rfl⟩ := List.mem_map.mp ha
    rw [hs]; exact h6 a0 ha0 b hb (by rw [← hk a0]; exact hkk)
  · intro a ha b hb hkk
    simp only [List.mem_append] at hb
    rcases hb with hb | hb
    · obtain ⟨b0, hb0, rfl⟩ := List.mem_map.mp hb
      rw [hs]; exact h3 a ha b0 (by simp [hb0]) (by rw [hkk, hk])
    · exact h3 a ha b (by simp [hb]) hkk

theorem ordered_map_run (cs : List Run) (g : VEntry → VEntry) (hk : ∀ e, (g e).key = e.key)
    (hs : ∀ e, (g e).seqno = e.seqno) (h : Ordered cs) : Ordered (cs.map (·.map g)) := by
  induction cs with
  | nil => exact h
  | cons c cs ih =>
    obtain ⟨h1, h2⟩ := h
    refine ⟨?_, ih h2⟩
    intro e he d hd e' he' hkk
    obtain ⟨e0, he0, rfl⟩ := List.mem_map.mp he
    obtain ⟨d0, hd0, rfl⟩ := List.mem_map.mp hd
    obtain ⟨e0', he0', rfl⟩ := List.mem_map.mp he'
    rw [hs, hs]
    exact h1 e0 he0 d0 hd0 e0' he0' (by rw [← hk e0', ← hk e0]; exact hkk)

theorem mapSeg_inv (t : Tree) (f : Filter) (i n : Nat) (h : Inv t) : Inv (t.mapSeg f i n) := by
  obtain ⟨ho, hd⟩ := h
  constructor
  · -- lookup order only depends on keys and seqnos
    have hc : (t.mapSeg f i n).comps = (t.active :: (t.sealed ++ t.tables.take i)) ++
        (((t.tables.drop i).take n).map (·.map (applyVerdict f)) ++ t.tables.drop (i + n)) := by
      simp [Tree.mapSeg, Tree.comps]
    rw [hc]
    rw [comps_split t i n] at ho
    rw [ordered_append] at ho ⊢
    obtain ⟨o1, o2, o3⟩ := ho
    rw [ordered_append] at o2
    obtain ⟨o4, o5, o6⟩ := o2
    refine ⟨o1, ?_, ?_⟩
    · rw [ordered_append]
      refine ⟨ordered_map_run _ _ (applyVerdict_key f) (applyVerdict_seqno f) o4, o5, ?_⟩
      intro e he e' he' hk
      rw [← List.map_flatten] at he
      obtain ⟨e0, he0, rfl⟩ := List.mem_map.mp he
      rw [applyVerdict_seqno]
      exact o6 e0 he0 e' he' (by rw [← applyVerdict_key f e0]; exact hk)
    · intro e he e' he' hk
      simp only [List.flatten_append, List.mem_append] at he'
      rcases he' with he' | he'
      · rw [← List.map_flatten] at he'
        obtain ⟨e0, he0, rfl⟩ := List.mem_map.mp he'
        rw [applyVerdict_seqno]
        exact o3 e he e0 (by simp [List.flatten_append, he0]) (by rw [← applyVerdict_key f e0]; exact hk)
      · exact o3 e he e' (by simp [List.flatten_append, he']) hk
  · rw [mapSeg_flatten]
    rw [orig_flatten t i n] at hd
    exact distinct_map_block _ _ _ _ (applyVerdict_key f) (applyVerdict_seqno f) hd

/-- newest version of `k` after mapping a block: the image of the old newest version -/
theorem newest_map_block (X M Y : Run) (f : Filter) (k : Key) (hd : Distinct (X ++ (M ++ Y))) :
    newestIn none k (X ++ (M.map (applyVerdict f) ++ Y)) =
      match newestIn none k (X ++ (M ++ Y)) with
      | none => none
      | some e => if e ∈ M then some (applyVerdict f e) else some e := by
  have hd' := distinct_map_block X M Y _ (applyVerdict_key f) (applyVerdict_seqno f) hd
  cases hN : newestIn none k (X ++ (M ++ Y)) with
  | none =>
    simp only
    rw [newestIn_none] at hN ⊢
    intro d hdm
    simp only [List.mem_append] at hdm
    rcases hdm with hdm | hdm | hdm
    · exact hN d (by simp [hdm])
    · obtain ⟨d0, hd0, rfl⟩ := List.mem_map.mp hdm
      rw [applyVerdict_key]
      exact hN d0 (by simp [hd0])
    · exact hN d (by simp [hdm])
  | some e =>
    simp only
    obtain ⟨hm, hk, hv, hmax⟩ := newestIn_some none k _ e hN
    have hmax' : ∀ d ∈ X ++ (M.map (applyVerdict f) ++ Y), d.key = k → visible none d = true → d.seqno ≤ e.seqno := by
      intro d hdm hdk _
      simp only [List.mem_append] at hdm
      rcases hdm with hdm | hdm | hdm
      · exact hmax d (by simp [hdm]) hdk rfl
      · obtain ⟨d0, hd0, rfl⟩ := List.mem_map.mp hdm
        rw [applyVerdict_seqno]
        exact hmax d0 (by simp [hd0]) (by rw [← applyVerdict_key f d0]; exact hdk) rfl
      · exact hmax d (by simp [hdm]) hdk rfl
    by_cases hM : e ∈ M
    · simp only [hM, if_true]
      rw [newestIn_iff none k _ hd']
      refine ⟨by simp [List.mem_map]; right; left; exact ⟨e, hM, rfl⟩, by rw [applyVerdict_key]; exact hk, rfl, ?_⟩
      intro d hdm hdk hdv
      rw [applyVerdict_seqno]
      exact hmax' d hdm hdk hdv
    · simp only [hM, if_false]
      rw [newestIn_iff none k _ hd']
      refine ⟨?_, hk, hv, hmax'⟩
      simp only [List.mem_append] at hm ⊢
      rcases hm with hm | hm | hm
      · left; exact hm
      · exact absurd hm hM
      · right; right; exact hm

/-- **what a filtering compaction can do to a key**: nothing, or replace its value by the filtered
    value -/
theorem compactF_abs (t : Tree) (f : Filter) (i n w : Nat) (h : Inv t) (k : Key) :
    (t.compactF f i n w).absGet none k = t.absGet none k ∨
    (t.compactF f i n w).absGet none k = filtered f k (t.absGet none k) := by
  unfold Tree.compactF
  split
  · left; rfl
  · have hi := mapSeg_inv t f i n h
    rw [compact_abs _ i n w hi]
    simp only [Tree.absGet]
    rw [mapSeg_flatten, orig_flatten t i n]
    have hd := h.distinct
    rw [orig_flatten t i n] at hd
    rw [newest_map_block _ _ _ f k hd]
    cases hN : newestIn none k _ with
    | none => left; rfl
    | some e =>
      simp only
      split
      · right
        have hk : e.key = k := (newestIn_some none k _ e hN).2.1
        simp only [Option.bind, applyVerdict_toVal, hk]
      · left; rfl

theorem filtered_idem (f : Filter) (k : Key) (v : Option Val) :
    filtered f k (filtered f k v) = filtered f k v := by
  unfold filtered
  cases v with
  | none => rfl
  | some x => cases hf : f k <;> simp [hf]

theorem filtered_keep (f : Filter) (k : Key) (v : Option Val) (h : f k = .keep) : filtered f k v = v := by
  unfold filtered; cases v <;> simp [h]

end Fjall.Mvcc
