/-
  Programs over several keyspaces sharing one seqno counter (src/keyspace/mod.rs write paths,
  src/batch/mod.rs, src/ingestion.rs) with background maintenance anywhere, and the reference
  semantics: one plain map per keyspace, maintenance erased.
-/
import FjallModel.Mvcc.Tree
namespace Fjall.Mvcc
open Fjall Fjall.Spec
open Fjall.Tx (TKind)

structure Kv where
  trees : KsId → Tree := fun _ => {}
  seqno : Nat := 0

inductive KvOp
  | insert (ks : KsId) (k : Key) (v : Val)
  | remove (ks : KsId) (k : Key)
  | batch (items : List (KsId × Key × Option Val))
  | clear (ks : KsId)
  | ingest (ks : KsId) (items : List (Key × Option Val))
  -- maintenance: placement, segment and watermark are arbitrary
  | rotate (ks : KsId)
  | flush (ks : KsId) (w : Nat)
  | compact (ks : KsId) (i n w : Nat)
  -- reads at SeqNo::MAX
  | get (ks : KsId) (k : Key)
  | contains (ks : KsId) (k : Key)
  | sizeOf (ks : KsId) (k : Key)
  | scan (ks : KsId) (lo hi : Bound)
  | len (ks : KsId)
  | isEmpty (ks : KsId)
  | first (ks : KsId)
  | last (ks : KsId)
  deriving Repr, DecidableEq

inductive KvOut
  | unit
  | val (v : Option Val)
  | bool (b : Bool)
  | size (n : Option Nat)
  | pairs (l : List (Key × Val))
  | pair (p : Option (Key × Val))
  | count (n : Nat)
  deriving Repr, DecidableEq

def Kv.upd (s : Kv) (ks : KsId) (f : Tree → Tree) : KsId → Tree :=
  fun x => if x = ks then f (s.trees ks) else s.trees x

def applyItems (trees : KsId → Tree) (seqno : Nat) : List (KsId × Key × Option Val) → KsId → Tree
  | [] => trees
  | (ks, k, v) :: r =>
    applyItems (fun x => if x = ks then (trees ks).applyR (itemEntry seqno k v) else trees x) seqno r

def kvStep (s : Kv) : KvOp → Kv × KvOut
  | .insert ks k v => ({ trees := s.upd ks (·.apply ⟨k, s.seqno, .value, v⟩), seqno := s.seqno + 1 }, .unit)
  | .remove ks k => ({ trees := s.upd ks (·.apply ⟨k, s.seqno, .tomb, []⟩), seqno := s.seqno + 1 }, .unit)
  | .batch items =>
    if items.isEmpty then (s, .unit)
    else ({ trees := applyItems s.trees s.seqno items, seqno := s.seqno + 1 }, .unit)
  | .clear ks =>
    -- one seqno for the journal marker, one for the new (empty) version
    ({ trees := s.upd ks (·.clear), seqno := s.seqno + 2 }, .unit)
  | .ingest ks items =>
    if items.isEmpty then (s, .unit)
    else
      -- rotate + flush(0) registers a version (a seqno) when there was something to flush
      let t0 := s.trees ks
      let flushed := !(t0.rotate.sealed.isEmpty)
      let g := if flushed then s.seqno + 1 else s.seqno
      ({ trees := s.upd ks (·.ingest g items), seqno := g + 1 }, .unit)
  | .rotate ks => ({ s with trees := s.upd ks (·.rotate) }, .unit)
  | .flush ks w =>
    if (s.trees ks).sealed.isEmpty then (s, .unit)
    else ({ trees := s.upd ks (·.flush w), seqno := s.seqno + 1 }, .unit)
  | .compact ks i n w =>
    if n = 0 ∨ i + n > (s.trees ks).tables.length then (s, .unit)
    else ({ trees := s.upd ks (·.compact i n w), seqno := s.seqno + 1 }, .unit)
  | .get ks k => (s, .val ((s.trees ks).pointGet none k))
  | .contains ks k => (s, .bool ((s.trees ks).pointGet none k).isSome)
  | .sizeOf ks k => (s, .size (((s.trees ks).pointGet none k).map (·.length)))
  | .scan ks lo hi => (s, .pairs (((s.trees ks).absMap none).range lo hi))
  | .len ks => (s, .count ((s.trees ks).absMap none).toList.length)
  | .isEmpty ks => (s, .bool ((s.trees ks).absMap none).toList.isEmpty)
  | .first ks => (s, .pair ((s.trees ks).absMap none).toList.head?)
  | .last ks => (s, .pair ((s.trees ks).absMap none).toList.getLast?)

def kvRun (s : Kv) : List KvOp → Kv × List KvOut
  | [] => (s, [])
  | o :: os => let (s1, out) := kvStep s o; let (s2, outs) := kvRun s1 os; (s2, out :: outs)

/-! ### reference: a sorted map per keyspace; maintenance does nothing -/

def specItems (m : KsId → KMap) : List (KsId × Key × Option Val) → KsId → KMap
  | [] => m
  | (ks, k, v) :: r => specItems (fun x => if x = ks then (k, v) :: m ks else m x) r

def specStep (m : KsId → KMap) : KvOp → (KsId → KMap) × KvOut
  | .insert ks k v => (fun x => if x = ks then (m ks).put k v else m x, .unit)
  | .remove ks k => (fun x => if x = ks then (m ks).del k else m x, .unit)
  | .batch items => (specItems m items, .unit)
  | .clear ks => (fun x => if x = ks then [] else m x, .unit)
  | .ingest ks items => (specItems m (items.map fun (k, v) => (ks, k, v)), .unit)
  | .rotate _ => (m, .unit)
  | .flush _ _ => (m, .unit)
  | .compact _ _ _ _ => (m, .unit)
  | .get ks k => (m, .val ((m ks).get k))
  | .contains ks k => (m, .bool ((m ks).get k).isSome)
  | .sizeOf ks k => (m, .size (((m ks).get k).map (·.length)))
  | .scan ks lo hi => (m, .pairs ((m ks).range lo hi))
  | .len ks => (m, .count (m ks).toList.length)
  | .isEmpty ks => (m, .bool (m ks).toList.isEmpty)
  | .first ks => (m, .pair (m ks).toList.head?)
  | .last ks => (m, .pair (m ks).toList.getLast?)

def specRun (m : KsId → KMap) : List KvOp → (KsId → KMap) × List KvOut
  | [] => (m, [])
  | o :: os => let (m1, out) := specStep m o; let (m2, outs) := specRun m1 os; (m2, out :: outs)

/-- what the real code rejects: an ingestion must be fed strictly ascending keys, so it does not
    name a key twice.  (A batch may name a key any number of times: the last item wins.) -/
def KvOp.WF : KvOp → Prop
  | .ingest _ items => (items.map (·.1)).Nodup
  | _ => True

end Fjall.Mvcc
