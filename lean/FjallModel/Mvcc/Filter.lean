/-
  Compaction filters (lsm-tree compaction/filter.rs + stream.rs as used by fjall): during a
  compaction every non-tombstone item the stream emits is shown to the keyspace's filter, whose
  verdict (decided from the key) is keep / remove (the item becomes a tombstone at the same seqno)
  / replace (new value at the same seqno); flushes apply no filter.
-/
import FjallModel.Mvcc.Tree
namespace Fjall.Mvcc
open Fjall Fjall.Spec
open Fjall.Tx (TKind)

inductive Verdict
  | keep
  | remove
  | replace (v : Val)
  deriving Repr, DecidableEq

abbrev Filter := Key → Verdict

def applyVerdict (f : Filter) (e : VEntry) : VEntry :=
  if e.kind = .value then
    match f e.key with
    | .keep => e
    | .remove => { e with kind := .tomb, val := [] }
    | .replace v => { e with val := v }
  else e

/-- what the filter makes of a logical value -/
def filtered (f : Filter) (k : Key) (v : Option Val) : Option Val :=
  match v with
  | none => none
  | some x => match f k with
    | .keep => some x
    | .remove => none
    | .replace y => some y

/-- the runs `[i, i+n)` with the filter applied to every value entry -/
def Tree.mapSeg (t : Tree) (f : Filter) (i n : Nat) : Tree :=
  { t with tables := t.tables.take i ++ ((t.tables.drop i).take n).map (·.map (applyVerdict f)) ++ t.tables.drop (i + n) }

/-- compaction of a keyspace that has a filter installed -/
def Tree.compactF (t : Tree) (f : Filter) (i n w : Nat) : Tree :=
  if n = 0 ∨ i + n > t.tables.length then t else (t.mapSeg f i n).compact i n w

end Fjall.Mvcc

namespace Fjall.Mvcc
open Fjall Fjall.Spec

/-! maintenance-only histories of one tree that has a filter installed -/
inductive Maint
  | rotate
  | flush (w : Nat)
  | compact (i n w : Nat)        -- a compaction of this keyspace (runs through its filter)
  deriving Repr, DecidableEq

def mstep (f : Filter) (t : Tree) : Maint → Tree
  | .rotate => t.rotate
  | .flush w => t.flush w
  | .compact i n w => t.compactF f i n w

def mrun (f : Filter) (t : Tree) (ms : List Maint) : Tree := ms.foldl (mstep f) t

/-! which keyspaces have a filter: `Database::keyspace` (create) and `recover_keyspaces` both ask
    the builder's assigner with the keyspace *name* -/
structure KsF where
  name : String
  hasFilter : Bool
  deriving Repr, DecidableEq

inductive AOp | create (name : String) | delete (name : String) | reopen
  deriving Repr, DecidableEq

def astep (a : String → Bool) (s : List KsF) : AOp → List KsF
  | .create n => if s.any (·.name = n) then s else s ++ [⟨n, a n⟩]
  | .delete n => s.filter (·.name ≠ n)
  | .reopen => s.map fun k => ⟨k.name, a k.name⟩

end Fjall.Mvcc
