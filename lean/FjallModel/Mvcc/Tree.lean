/-
  The LSM tree as lsm-tree presents it to fjall (latest super version):
  components in *lookup order* = active memtable, sealed memtables newest→oldest, table runs
  newest→oldest.  Point reads return the newest visible entry of the *first* component that has
  one (`Tree::get_internal_entry_from_version`); scans merge all components and keep the highest
  visible seqno per key.  Visibility is `seqno < instant` (`None` = SeqNo::MAX reads).
-/
import FjallModel.Tx.Base
namespace Fjall.Mvcc
open Fjall Fjall.Spec
open Fjall.Tx (TKind)

structure VEntry where
  key : Key
  seqno : Nat
  kind : TKind
  val : Val
  deriving Repr, DecidableEq

def VEntry.toVal (e : VEntry) : Option Val := if e.kind = .value then some e.val else none

abbrev Run := List VEntry

def visible (inst : Option Nat) (e : VEntry) : Bool :=
  match inst with
  | none => true
  | some i => e.seqno < i

/-- pick the entry with the higher seqno (the earlier one on ties) -/
def newer (a : Option VEntry) (b : VEntry) : Option VEntry :=
  match a with
  | none => some b
  | some x => if x.seqno < b.seqno then some b else some x

/-- newest visible version of `k` inside one run -/
def newestIn (inst : Option Nat) (k : Key) (r : Run) : Option VEntry :=
  r.foldl (fun acc e => if e.key = k ∧ visible inst e then newer acc e else acc) none

/-- first component (in lookup order) that has a visible version of `k` -/
def firstHit (inst : Option Nat) (k : Key) : List Run → Option VEntry
  | [] => none
  | c :: cs => match newestIn inst k c with
    | some e => some e
    | none => firstHit inst k cs

structure Tree where
  active : Run := []
  sealed : List Run := []
  tables : List Run := []
  deriving Repr, DecidableEq

def Tree.comps (t : Tree) : List Run := t.active :: (t.sealed ++ t.tables)

/-- `Tree::get` -/
def Tree.pointGet (t : Tree) (inst : Option Nat) (k : Key) : Option Val :=
  (firstHit inst k t.comps).bind VEntry.toVal

/-- what the merging scan yields for `k`: the globally newest visible version -/
def Tree.absGet (t : Tree) (inst : Option Nat) (k : Key) : Option Val :=
  (newestIn inst k t.comps.flatten).bind VEntry.toVal

/-- the logical content as a `KMap` (for scans): one assignment per mentioned key -/
def Tree.absMap (t : Tree) (inst : Option Nat) : KMap :=
  t.comps.flatten.map fun e => (e.key, t.absGet inst e.key)

/-! ### write path -/

/-- memtable insert at the drawn seqno -/
def Tree.apply (t : Tree) (e : VEntry) : Tree := { t with active := e :: t.active }

/-- memtable insert as the skip map does it (`SkipMap::insert`): an entry with the same
    (key, seqno) is replaced.  Only a batch can name a key twice under one seqno; for a write at a
    fresh seqno this is `Tree.apply`. -/
def Tree.applyR (t : Tree) (e : VEntry) : Tree :=
  { t with active := e :: t.active.filter fun x => !(decide (x.key = e.key) && decide (x.seqno = e.seqno)) }

/-- `Tree::clear`: a fresh version with empty memtables and no tables -/
def Tree.clear (_ : Tree) : Tree := {}

/-! ### maintenance -/

/-- `rotate_memtable`: seal the active memtable (no-op when it is empty) -/
def Tree.rotate (t : Tree) : Tree :=
  if t.active.isEmpty then t else { t with active := [], sealed := t.active :: t.sealed }

/-! `CompactionStream` (lsm-tree/src/compaction/stream.rs) walks the versions of one key newest →
    oldest: the current item is emitted unless it is a tombstone in an evicting (last-level)
    compaction and nothing kept follows it; as soon as the *next older* version is `< w` the whole
    older tail is drained.  Because seqnos decrease along the walk this is the same as:
    a version is kept iff it is the newest of its key or its seqno is `≥ w`; and, when evicting,
    the oldest kept version of a key is dropped if it is a tombstone.
    (Weak tombstones — `remove_weak`, documented as undefined after an overwrite — are treated like
    ordinary tombstones here and are outside the theorems.) -/

def isNewest (r : Run) (e : VEntry) : Bool := r.all fun d => d.key ≠ e.key || d.seqno ≤ e.seqno

def keptBase (w : Nat) (r : Run) (e : VEntry) : Bool := isNewest r e || w ≤ e.seqno

/-- `e` is the oldest version of its key that survives the seqno rule -/
def lastKept (w : Nat) (r : Run) (e : VEntry) : Bool :=
  r.all fun d => d.key ≠ e.key || e.seqno ≤ d.seqno || !keptBase w r d

/-- merge a run through the compaction stream -/
def gcRun (w : Nat) (evict : Bool) (r : Run) : Run :=
  r.filter fun e => keptBase w r e && !(evict && e.kind != .value && lastKept w r e)

/-- `Tree::flush`: all sealed memtables become one table run at the front -/
def Tree.flush (t : Tree) (w : Nat) : Tree :=
  if t.sealed.isEmpty then t
  else { t with sealed := [], tables := gcRun w false t.sealed.flatten :: t.tables }

/-- compaction of the contiguous segment `[i, i+n)` of table runs into one run at position `i`;
    tombstones are evicted only when the segment reaches the last run -/
def Tree.compact (t : Tree) (i n : Nat) (w : Nat) : Tree :=
  if n = 0 ∨ i + n > t.tables.length then t else
  let seg := (t.tables.drop i).take n
  let evict := i + n = t.tables.length
  { t with tables := t.tables.take i ++ [gcRun w evict seg.flatten] ++ t.tables.drop (i + n) }

def itemEntry (seqno : Nat) (k : Key) (v : Option Val) : VEntry :=
  match v with
  | some v => ⟨k, seqno, .value, v⟩
  | none => ⟨k, seqno, .tomb, []⟩

/-- bulk ingestion: rotate + flush(0), then the ingested run (all entries at the global seqno `g`)
    is registered in front -/
def Tree.ingest (t : Tree) (g : Nat) (items : List (Key × Option Val)) : Tree :=
  if items.isEmpty then t else
  let t1 := (t.rotate).flush 0
  { t1 with tables := (items.map fun (k, v) => itemEntry g k v) :: t1.tables }

/-! ### invariants -/

/-- lookup order is seqno order: whatever an earlier component holds for a key is newer than
    whatever a later component holds for it -/
def Ordered : List Run → Prop
  | [] => True
  | c :: cs => (∀ e ∈ c, ∀ d ∈ cs, ∀ e' ∈ d, e'.key = e.key → e'.seqno < e.seqno) ∧ Ordered cs

/-- no two versions of a key share a seqno -/
def Distinct (l : Run) : Prop := l.Pairwise fun a b => a.key = b.key → a.seqno ≠ b.seqno

end Fjall.Mvcc
