/-
  Database at the level of operation logs (stage 1 of the Db layer): what is on disk after a
  close or a process crash — table contents and journal files — and `Database::recover`
  (src/db.rs, src/recovery.rs, src/journal/manager.rs, src/keyspace/mod.rs).

  A keyspace's tables and memtables are represented by the operations they reflect, in commit
  order (`tables`, `mem`); first-hit vs. merge reads and GC inside tables live in `Mvcc.Tree`.
-/
import FjallModel.Spec
namespace Fjall.Db
open Fjall Fjall.Spec

inductive LOp
  | put (k : Key) (v : Val)
  | del (k : Key)
  | clear
  deriving Repr, DecidableEq

/-- one journal record -/
structure Rec where
  seqno : Nat
  ks : KsId
  op : LOp
  /-- ghost flag: the record came from a bulk ingestion, not from the journal -/
  ing : Bool := false
  deriving Repr, DecidableEq

def applyOp (m : KMap) : LOp → KMap
  | .put k v => m.put k v
  | .del k => m.del k
  | .clear => []

def applyAll (m : KMap) (ops : List LOp) : KMap := ops.foldl applyOp m

structure KsL where
  id : KsId
  name : String
  /-- operations reflected in the table files (durable), oldest first, since the last clear -/
  tables : List Rec := []
  /-- operations held in sealed memtables (a flush is queued), oldest first -/
  sealedMem : List Rec := []
  /-- operations held in the active memtable, oldest first -/
  mem : List Rec := []
  /-- `get_highest_persisted_seqno`: highest seqno found in the table files.  Normally the highest
      seqno in `tables`; a last-level compaction that evicts the newest tombstones lowers it (the
      observed value is an environment input, see `lowerPersisted`). -/
  persisted : Option Nat := none
  deriving Repr, DecidableEq

def maxStep (acc : Option Nat) (r : Rec) : Option Nat :=
  some (match acc with | none => r.seqno | some a => max a r.seqno)

def maxSeqno (rs : List Rec) : Option Nat := rs.foldl maxStep none

def optMax : Option Nat → Option Nat → Option Nat
  | none, b => b
  | a, none => a
  | some a, some b => some (max a b)

/-- highest seqno held in memtables (`get_highest_memtable_seqno`) -/
def KsL.memHighest (k : KsL) : Option Nat := maxSeqno (k.sealedMem ++ k.mem)

/-- logical content -/
def KsL.abs (k : KsL) : KMap := applyAll [] ((k.tables ++ k.sealedMem ++ k.mem).map (·.op))

structure JournalL where
  id : Nat
  recs : List Rec := []
  /-- eviction watermarks of a sealed journal: keyspace id ↦ lsn -/
  watermarks : List (KsId × Nat) := []
  deriving Repr, DecidableEq

structure DbL where
  kss : List KsL := []
  /-- meta rows `n‖id ↦ name` -/
  names : List (KsId × String) := []
  nextKsId : Nat := 1
  seqno : Nat := 0
  sealed : List JournalL := []      -- oldest first
  active : JournalL := { id := 0 }
  deriving Repr, DecidableEq

def DbL.find (db : DbL) (id : KsId) : Option KsL := db.kss.find? (·.id = id)

def DbL.updKs (db : DbL) (id : KsId) (f : KsL → KsL) : DbL :=
  { db with kss := db.kss.map fun k => if k.id = id then f k else k }

/-- what one journal record does to the keyspace it names (at write time and at replay time) -/
def applyRec (r : Rec) (k : KsL) : KsL :=
  match r.op with
  | .clear => { k with tables := [], sealedMem := [], mem := [], persisted := none }
  | _ => { k with mem := k.mem ++ [r] }

def stepKs (r : Rec) (k : KsL) : KsL := if k.id = r.ks then applyRec r k else k

/-- apply / replay one journal record -/
def replayRec (kss : List KsL) (r : Rec) : List KsL := kss.map (stepKs r)

/-- a single write / a batch / a clear: journal append, then memtable apply
    (`clear` also draws a seqno for the new empty version and drops tables and memtables) -/
def DbL.write (db : DbL) (items : List (KsId × LOp)) : DbL :=
  let s := db.seqno
  let recs := items.map fun (ks, op) => (⟨s, ks, op, false⟩ : Rec)
  { db with active := { db.active with recs := db.active.recs ++ recs },
            kss := recs.foldl replayRec db.kss,
            seqno := s + (if items.any (fun p => p.2 = .clear) then 2 else 1) }

def sealMem (k : KsL) : KsL :=
  if k.mem.isEmpty then k else { k with sealedMem := k.sealedMem ++ k.mem, mem := [] }

/-- a flush writes the sealed memtables' entries into a new table.  An entry that recovery replayed
    although the tables already reflect it (same key, seqno and value) lands on top of its old copy
    and adds nothing to the history the tables reflect; it does count for the highest seqno. -/
def KsL.flushSealed (k : KsL) : KsL :=
  { k with tables := k.tables ++ k.sealedMem.filter (fun r => decide (r ∉ k.tables)), sealedMem := [],
           persisted := optMax k.persisted (maxSeqno k.sealedMem) }

def KsL.lowerPersisted (k : KsL) (v : Option Nat) : KsL :=
  match k.persisted, v with
  | some p, some x => if x ≤ p then { k with persisted := some x } else k
  | some _, none => { k with persisted := none }
  | none, _ => k

/-- the effect of the last operation in `ops` that touches `k` (`none` = no operation touches it) -/
def lastOn (k : Key) : List LOp → Option (Option Val)
  | [] => none
  | op :: r => match lastOn k r with
    | some x => some x
    | none => match op with
      | .put k' v => if k' = k then some (some v) else none
      | .del k' => if k' = k then some none else none
      | .clear => none

/-- no key's newest operation in `ops` is a put -/
def noLive : List LOp → Bool
  | [] => true
  | op :: r => noLive r && (match op with
    | .put k _ => (lastOn k r).isSome
    | _ => true)

/-- is the record's seqno above the highest seqno found in the tables? -/
def above (p : Option Nat) (r : Rec) : Bool :=
  match p with
  | none => true
  | some p => p < r.seqno

/-- what the table files physically guarantee about `get_highest_persisted_seqno`: an entry that is
    the newest for its key and is a value (not a tombstone) cannot have been dropped by any
    compaction, so its seqno is counted.  (Tombstones and shadowed entries can be dropped.) -/
def KsL.physOk (k : KsL) : Bool := noLive ((k.tables.filter (above k.persisted)).map (·.op))

/-- `rotate_memtable`: the active memtable is sealed (no-op when empty) -/
def DbL.rotate (db : DbL) (id : KsId) : DbL := db.updKs id sealMem

/-- flush worker: all sealed memtables of a keyspace become durable in tables (registers a version) -/
def DbL.flushSealed (db : DbL) (id : KsId) : DbL :=
  if db.kss.any (fun k => k.id = id && !k.sealedMem.isEmpty) then
    { (db.updKs id KsL.flushSealed) with seqno := db.seqno + 1 }
  else db

/-- last-level compaction evicted tombstones: the highest seqno left in the tables went down to the
    observed value `v` (only ever lowers the model's value) -/
def DbL.lowerPersisted (db : DbL) (id : KsId) (v : Option Nat) : DbL :=
  db.updKs id (·.lowerPersisted v)

/-- rotate + flush -/
def DbL.flush (db : DbL) (id : KsId) : DbL := (db.rotate id).flushSealed id

/-- bulk ingestion (`Ingestion::finish`): rotate + flush, then the ingested items become a table
    run carrying one fresh seqno — without any journal record -/
def DbL.ingest (db : DbL) (id : KsId) (items : List (Key × Option Val)) : DbL :=
  if items.isEmpty then db else
  let db1 := db.flush id
  let g := db1.seqno
  let recs := items.map fun (k, v) => (⟨g, id, match v with | some v => .put k v | none => .del k, true⟩ : Rec)
  { (db1.updKs id fun k => { k with tables := k.tables ++ recs, persisted := optMax k.persisted (some g) })
      with seqno := g + 1 }

/-- `Supervisor::build_seqno_map` + `JournalManager::rotate_journal` -/
def DbL.rotateJournal (db : DbL) : DbL :=
  let wms := db.kss.filterMap fun k => k.memHighest.map fun h => (k.id, h)
  { db with sealed := db.sealed ++ [{ db.active with watermarks := wms }],
            active := { id := db.active.id + 1 } }

/-- has the keyspace flushed everything up to `lsn`?  Its tables hold a seqno at least `lsn`, or
    (repaired, finding F10) it holds nothing in memory at all — then everything it ever journaled
    was flushed or cleared, even if the tables' highest seqno does not show it any more -/
def KsL.flushedUpTo (k : KsL) (lsn : Nat) : Bool :=
  (match k.persisted with
   | none => false
   | some p => lsn ≤ p) || (k.sealedMem.isEmpty && k.mem.isEmpty)

/-- may the oldest sealed journal be deleted? -/
def DbL.evictable (db : DbL) (j : JournalL) : Bool :=
  j.watermarks.all fun (id, lsn) =>
    match db.find id with
    | none => true                               -- keyspace deleted
    | some k => k.flushedUpTo lsn

/-- the loop of `JournalManager::maintenance`: drop evictable journals from the old end, stop at
    the first one that is still needed -/
def evictPrefix (db : DbL) : List JournalL → List JournalL
  | [] => []
  | j :: rest => if db.evictable j then evictPrefix db rest else j :: rest

/-- `JournalManager::maintenance` -/
def DbL.maintenance (db : DbL) : DbL := { db with sealed := evictPrefix db db.sealed }

/-- `Database::keyspace` for a new name -/
def DbL.createKs (db : DbL) (name : String) : DbL × KsId :=
  match db.kss.find? (·.name = name) with
  | some k => (db, k.id)
  | none =>
    let id := db.nextKsId
    -- meta-keyspace ingestion registers a version (draws a seqno)
    ({ db with kss := db.kss ++ [{ id := id, name := name }], names := db.names ++ [(id, name)],
               nextKsId := id + 1, seqno := db.seqno + 1 }, id)

/-- `Database::delete_keyspace` -/
def DbL.deleteKs (db : DbL) (id : KsId) : DbL :=
  { db with kss := db.kss.filter (·.id ≠ id), names := db.names.filter (·.1 ≠ id),
            seqno := db.seqno + 2 }

/-! ### recovery -/

/-- watermarks recomputed while replaying a sealed journal: ks ↦ max seqno of its records -/
def replayWatermarks (kss : List KsL) (recs : List Rec) : List (KsId × Nat) :=
  kss.filterMap fun k =>
    let mine := recs.filter (·.ks = k.id)
    if mine.isEmpty then none else some (k.id, mine.foldl (fun a r => max a r.seqno) 0)

/-- after a sealed journal was replayed: memtables whose content is already in tables are dropped
    (`clear_active_memtable`, which drops earlier sealed memtables too), the others are sealed -/
def sealAfterReplay (kss : List KsL) (wms : List (KsId × Nat)) : List KsL :=
  kss.map fun k => match wms.lookup k.id with
    | none => k
    | some lsn =>
      match k.persisted with
      | some p => if lsn ≤ p then { k with sealedMem := [], mem := [] } else sealMem k
      | none => sealMem k

/-- (repaired, findings F2 / F3 / F13) a journal record is replayed only if its seqno is above the
    highest seqno the keyspace's tables held *before* replay started -/
def needsReplay (pb : List (KsId × Nat)) (r : Rec) : Bool := above (pb.lookup r.ks) r

/-- `Database::recover`: keyspaces from the meta rows and their tables; sealed journals oldest
    first with the skip rule; then the active journal; seqno := highest seqno found + 1 -/
def DbL.recover (db : DbL) : DbL :=
  let kss0 := db.kss.map fun k => { k with sealedMem := [], mem := [] }     -- memtables are gone
  let pb : List (KsId × Nat) := kss0.filterMap fun k => k.persisted.map fun p => (k.id, p)
  let (kss1, sealed') := db.sealed.foldl (fun (acc : List KsL × List JournalL) j =>
      let (kss, out) := acc
      let recs := j.recs.filter (needsReplay pb)
      let kss' := recs.foldl replayRec kss
      let wms := replayWatermarks kss' recs
      (sealAfterReplay kss' wms, out ++ [{ j with watermarks := wms }])) (kss0, [])
  let kss2 := (db.active.recs.filter (needsReplay pb)).foldl replayRec kss1
  -- seqnos found in the trees and (repaired, F11) in every journal record, resolved or not
  let all := (kss2.flatMap fun k => (k.tables ++ k.sealedMem ++ k.mem).map (·.seqno)) ++
    (db.sealed.flatMap fun j => j.recs.map (·.seqno)) ++ db.active.recs.map (·.seqno)
  let highest := all.foldl max 0
  let anyData := !all.isEmpty
  -- keyspace ids found on disk and (repaired, F1) in every journal record
  let maxId := ((db.kss.map (·.id)) ++ (db.sealed.flatMap fun j => j.recs.map (·.ks)) ++ db.active.recs.map (·.ks)).foldl max 1
  { db with kss := kss2, sealed := sealed', seqno := if anyData then highest + 1 else 0,
            nextKsId := maxId + 1 }

def DbL.absOf (db : DbL) (id : KsId) : KMap :=
  match db.find id with
  | some k => k.abs
  | none => []

end Fjall.Db
