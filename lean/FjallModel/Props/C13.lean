/-
  C13 — fail-stop after a journal I/O failure (database-level write paths over the writer model,
  with an arbitrary fault plan: the n-th journal syscall and all later ones fail, optionally after
  a short write).
-/
import FjallModel.Lemmas.Writer
namespace Fjall.Journal
open Fjall

/-- every operation that reports an error leaves the database poisoned -/
theorem c13_error_poisons (db : JDb) (op : JOp) (h : (jstep db op).2 ≠ .ok) :
    (jstep db op).1.poisoned = true := jstep_err_poisons db op h

/-- **Fail-stop.** For every workload and every fault plan: once an operation has reported an
    error, no later insert / remove / clear / non-empty batch / transaction commit / persist is
    acknowledged. -/
theorem c13_fail_stop (db : JDb) (ops : List JOp) (i j : Nat) (hij : i < j) (hj : j < ops.length)
    (hi : (jrun db ops).2[i]? ≠ some .ok) (hne : (ops[j]).isEmptyBatch = false) :
    (jrun db ops).2[j]? = some .poisoned := by
  induction ops generalizing db i j with
  | nil => simp at hj
  | cons o os ih =>
    cases i with
    | zero =>
      -- the first operation failed: the rest runs on a poisoned database
      simp only [jrun, List.getElem?_cons_zero] at hi
      have hp := jstep_err_poisons db o (by intro h; apply hi; rw [h])
      cases j with
      | zero => omega
      | succ j' =>
        simp only [jrun, List.getElem?_cons_succ]
        simp only [List.getElem_cons_succ] at hne
        exact jrun_poisoned _ os hp j' (by simpa using hj) hne
    | succ i' =>
      cases j with
      | zero => omega
      | succ j' =>
        simp only [jrun, List.getElem?_cons_succ] at hi ⊢
        simp only [List.getElem_cons_succ] at hne
        exact ih _ i' j' (by omega) (by simpa using hj) hi hne

/-- a poisoned database touches the journal no more -/
theorem c13_poisoned_is_inert (db : JDb) (op : JOp) (hp : db.poisoned = true)
    (he : op.isEmptyBatch = false) : (jstep db op).1 = db :=
  by rw [jstep_poisoned db op hp he]

/-! Non-vacuity: the write(2) issued by the BufWriter *inside* a batch append fails (this path did
    not poison before the repair of finding F8): the batch reports an error and the following
    insert, clear and persist are refused. -/
example :
    (jrun { w := { cap := 16, failAt := some 1 } }
      [.batch [[1, 1, 1, 1, 1, 1], [2, 2, 2, 2, 2, 2], [3, 3, 3, 3, 3, 3]] (some .buffer),
       .single [[4]], .clear [[5]], .persist .syncAll]).2
      = [.io, .poisoned, .poisoned, .poisoned] := by
  decide

end Fjall.Journal
