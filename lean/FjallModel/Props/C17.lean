/-
  C17 — one live instance per directory; only compatible directories open (stage 1).
-/
import FjallModel.Version
namespace Fjall.Version
open Fjall

/-- **Version gate.** A marker is accepted iff its first four bytes are `F J L 0x03`,
    for every byte content of the marker file. -/
theorem c17_version_accepts_iff (bytes : Bytes) :
    checkVersion bytes = .ok () ↔ ∃ r, bytes = [0x46, 0x4A, 0x4C, 3] ++ r := by
  constructor
  · intro h
    match bytes, h with
    | a :: b :: c :: v :: r, h =>
      simp only [checkVersion, parseFileHeader] at h
      split at h
      · rename_i ver hv
        split at h
        · rename_i h3
          subst h3
          split at hv
          · rename_i hm
            simp [markerMagic] at hm
            obtain ⟨rfl, rfl, rfl⟩ := hm
            simp only [FormatVersion.ofByte] at hv
            split at hv
            · simp at hv
            split at hv
            · simp at hv
            split at hv
            · rename_i hv3; subst hv3; exact ⟨r, rfl⟩
            · simp at hv
          · simp at hv
        · simp at h
      · simp at h
    | [], h => simp [checkVersion, parseFileHeader] at h
    | [_], h => simp [checkVersion, parseFileHeader] at h
    | [_, _], h => simp [checkVersion, parseFileHeader] at h
    | [_, _, _], h => simp [checkVersion, parseFileHeader] at h
  · rintro ⟨r, rfl⟩
    simp [checkVersion, parseFileHeader, markerMagic, FormatVersion.ofByte]

/-- **A refused open of a directory with a marker changes nothing**: wrong / unknown version, or
    the lock is held. -/
theorem c17_refused_open_writes_nothing (d : Dir) (m : Bytes) (hm : d.marker = some m) (e : OpenErr)
    (h : (openDb d).2 = .error e) : (openDb d).1 = d := by
  unfold openDb at h ⊢
  rw [hm] at h ⊢
  simp only at h ⊢
  split
  · rfl
  · split
    · rfl
    · rename_i hv hl
      simp [hv, hl] at h

/-- while the lock is held, every open attempt is refused with `locked` or a version error -/
theorem c17_locked_refuses (d : Dir) (hl : d.holders > 0) :
    ∃ e, (openDb d).2 = .error e ∧ (openDb d).1 = d := by
  unfold openDb
  cases hm : d.marker with
  | none => by_cases hk : d.hasKeyspaces <;> simp [Dir.locked, hl, hk]
  | some b =>
    simp only
    cases hv : checkVersion b with
    | error e => exact ⟨e, rfl, rfl⟩
    | ok u => simp [Dir.locked, hl]

/-- with the directory lock taken only after recovery (seeded change C17-7) a second open of a live,
    compatible directory is still refused with `Locked` – but it has modified the directory the live
    instance is working in -/
theorem c17_late_lock_spoils_live_directory (d : Dir) (b : Bytes) (hm : d.marker = some b)
    (hv : checkVersion b = .ok ()) (hl : d.holders > 0) :
    (openDbLateLock d).2 = .error .locked ∧ (openDbLateLock d).1.mutations = d.mutations + 1 ∧
      (openDb d).1 = d := by
  refine ⟨?_, ?_, ?_⟩
  · simp [openDbLateLock, hm, hv, Dir.locked, hl]
  · simp [openDbLateLock, hm, hv, Dir.locked, hl]
  · simp [openDb, hm, hv, Dir.locked, hl]

/-- **The lock outlives the instance's last journal I/O**: while the last handle is being dropped, an
    open that succeeds finds nothing pending – the journal was written and synced before the lock
    went. -/
theorem c17_open_during_drop_sees_synced_journal (d : Dir) (hh : d.holders = 1) (s : Dir)
    (hs : s ∈ dropLastStates false d) (hok : (openDb s).2 = .ok ()) : s.pendingJournal = false := by
  simp only [dropLastStates, Bool.false_eq_true, if_false, List.mem_cons, List.mem_nil_iff, or_false] at hs
  rcases hs with hs | hs <;> subst hs <;> rfl

/-- moreover the first of those states still refuses the open -/
theorem c17_open_during_flush_refused (d : Dir) (hh : d.holders = 1) :
    ∃ e, (openDb { d with pendingJournal := false, mutations := d.mutations + 1 }).2 = .error e ∧
      { d with pendingJournal := false, mutations := d.mutations + 1 } ∈ dropLastStates false d := by
  obtain ⟨e, he, _⟩ := c17_locked_refuses { d with pendingJournal := false, mutations := d.mutations + 1 } (by simp [hh])
  exact ⟨e, he, by simp [dropLastStates]⟩

/-- with the lock released first (seeded change C17-9) an open succeeds while acknowledged journal bytes
    of the first instance are still pending -/
theorem c17_lock_released_before_sync_counterexample :
    let d : Dir := { marker := some (markerMagic ++ [3]), hasJournal0 := true, hasKeyspaces := true,
                     mutations := 0, holders := 1, pendingJournal := true }
    ∃ s ∈ dropLastStates true d, (openDb s).2 = .ok () ∧ s.pendingJournal = true := by
  refine ⟨_, List.mem_cons_self, ?_, rfl⟩
  rfl

/-- **The lock is held exactly while a handle is alive**, over every sequence of
    open / clone / drop: `holders` is the number of live handles, never negative, and an open
    succeeds only from `holders = 0`. -/
theorem c17_open_ok_only_when_free (d : Dir) (h : (openDb d).2 = .ok ()) :
    d.holders = 0 ∧ (openDb d).1.holders = 1 := by
  unfold openDb at h ⊢
  cases hm : d.marker with
  | none =>
    rw [hm] at h
    simp only at h ⊢
    by_cases hk : d.hasKeyspaces
    · simp [hk] at h
    · by_cases hl : d.locked
      · simp [hk, hl] at h
      · by_cases hj : d.hasJournal0
        · simp [hk, hl, hj] at h
        · simp [Dir.locked] at hl
          simp [Dir.locked, hk, hl, hj]
  | some b =>
    rw [hm] at h
    simp only at h ⊢
    cases hv : checkVersion b with
    | error e => simp [hv] at h
    | ok u =>
      by_cases hl : d.locked
      · simp [hv, hl] at h
      · simp [Dir.locked] at hl
        simp [Dir.locked, hl]

/-- after the last handle is dropped a compatible directory opens again -/
theorem c17_unlocked_after_last_drop (d : Dir) (m : Bytes) (hm : d.marker = some m)
    (hv : checkVersion m = .ok ()) (h1 : d.holders = 1) :
    (openDb (stepH d .drop).1).2 = .ok () := by
  simp [stepH, h1, openDb, hm, hv, Dir.locked]

/-- **A database directory without its version marker is refused untouched** (repaired, finding
    F12): whatever else is in it — in particular when its first journal `0.jnl` has already been
    reclaimed, where the open used to take the create path and write a fresh journal and marker
    over the existing data. -/
theorem c17_marker_absent_refused (d : Dir) (hm : d.marker = none) (hk : d.hasKeyspaces = true) :
    openDb d = (d, .error (.invalidVersion none)) := by
  simp [openDb, hm, hk]

/-! Non-vacuity -/
example : checkVersion [0x46, 0x4A, 0x4C, 3, 9, 9] = .ok () := rfl
example : checkVersion [0x46, 0x4A, 0x4C, 2] = .error (.invalidVersion (some .v2)) := rfl
example : ∃ d : Dir, d.holders > 0 ∧ d.marker = some [0x46, 0x4A, 0x4C, 3] :=
  ⟨⟨some [0x46, 0x4A, 0x4C, 3], true, true, 3, 2, false⟩, by decide, rfl⟩

end Fjall.Version
