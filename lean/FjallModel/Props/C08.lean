/-
  C08 — transaction-local semantics: read-your-writes, last write wins, commit = final write per
  key exactly once.  (Model: `Tx.Base`; spec: a plain map per keyspace.)
-/
import FjallModel.Lemmas.TxBase
import FjallModel.Lemmas.Sw
namespace Fjall.Tx
open Fjall Fjall.Spec

/-- **Read-your-own-writes / last write wins**, for every in-transaction program over any number of
    keyspaces (point reads, `contains_key`, `size_of`, scans with any bounds, inserts, removes,
    `take` / `fetch_update` / `update_fetch` with *any* update function): every output equals the
    output of a plain map per keyspace that starts as the snapshot and applies each write at once. -/
theorem c08_ryow (snap : KsId → KMap) (prog : List TOp) :
    (run { snap := snap } prog).2 = (refRun snap prog).2 := by
  have h0 : R { snap := snap } snap := fun ks => by
    simp [BaseTx.view, KMap.Equiv.refl]
  exact (run_refines _ _ h0 prog).1

/-- a removed key is absent from point reads and scans alike; an inserted one is present in both -/
theorem c08_point_scan_agree (tx : BaseTx) (ks : KsId) (k : Key) (v : Val) :
    (k, v) ∈ (tx.view ks).toList ↔ tx.get ks k = some v := by
  rw [get_eq_view, toList_eq]
  simp only [List.mem_filterMap, mem_liveKeys]
  constructor
  · rintro ⟨k', _, h⟩
    cases hg : (tx.view ks).get k' with
    | none => simp [hg] at h
    | some w => simp [hg] at h; obtain ⟨rfl, rfl⟩ := h; exact hg
  · intro h
    exact ⟨k, by simp [h], by simp [h]⟩

/-- **Commit applies exactly the final write per key, once**: the emitted batch holds, for every
    (keyspace, key) the transaction wrote, its newest entry and nothing else for that key. -/
theorem c08_commit_final_write_once (tx : BaseTx) :
    (∀ ks k, (tx.commitBatch).find? (fun e => e.ks = ks ∧ e.key = k) = tx.newestOwn ks k) ∧
    ((tx.commitBatch).map fun e => (e.ks, e.key)).Nodup :=
  ⟨fun ks k => commitItems_find tx.mem ks k, commitItems_nodup tx.mem⟩

/-- applying that batch to the snapshot gives the transaction's own final view -/
theorem c08_commit_equals_view (tx : BaseTx) (ks : KsId) :
    (ownView tx.commitBatch (tx.snap ks) ks).Equiv (tx.view ks) := by
  intro k
  have h1 := ownView_get tx.commitBatch (tx.snap ks) ks k
  have h2 := ownView_get tx.mem (tx.snap ks) ks k
  rw [h1]
  show _ = (ownView tx.mem (tx.snap ks) ks).get k
  rw [h2]
  simp only [ownGet, BaseTx.commitBatch, commitItems_find]

/-- rollback / drop emits nothing: a transaction that is not committed contributes no batch.
    (`rollback` consumes the transaction; the committed log is only ever extended by `commit`.) -/
theorem c08_read_only_commit_emits_nothing (snap : KsId → KMap) :
    ({ snap := snap } : BaseTx).commitBatch = [] := rfl

/-! Non-vacuity: a program that overwrites, removes, re-inserts and scans. -/
example :
    (run { snap := fun _ => [([1], some [9])] }
      [.insert 0 [1] [7], .remove 0 [1], .get 0 [1], .insert 0 [2] [5], .scan 0 .unbounded .unbounded]).2
      = [.unit, .unit, .val none, .unit, .pairs [([2], [5])]] := by
  decide

end Fjall.Tx

/-! ## Single-writer transactions across threads (all schedules) -/
namespace Fjall.Sw
open Fjall Fjall.Spec Fjall.Tx

/-- **Single-writer write transactions never overlap and are serial, for every thread schedule.**
    Any number of threads, each with any list of jobs (write transactions with any program ending
    in commit or rollback/drop, and read-only snapshots), stepped in any order (`sched` = list of
    thread ids; a step of a thread that waits for the lock is a no-op):
    * at most one thread holds the single-writer lock (is between `write_tx` and the end of
      `commit` / `rollback`);
    * the committed log is exactly the batches of the committed transactions in commit order,
      each computed on the log its predecessors left (`Chain`);
    * every committed transaction returned, and wrote, exactly what it returns and writes when run
      alone on that log (`Replays`) – the concurrent history equals the serial one;
    * every read-only snapshot returned what it returns on a committed prefix of the log: nothing
      of an unfinished transaction is ever visible outside. -/
theorem c08_single_writer_serial (jobs : List (List Job)) (sched : List Nat) :
    let s := run {} (init jobs) sched
    (∀ a b, (s.threads a).phase.holds = true → (s.threads b).phase.holds = true → a = b) ∧
    Chain s.done s.log ∧ (∀ d ∈ s.done, Replays d) ∧
    (∀ d ∈ s.doneRo, (∀ i, (xrun (snapOf d.before i) d.prog).2 = d.outs) ∧
      ∃ newer, s.log = newer ++ d.before) ∧
    (∀ d ∈ s.done, ∃ (tid : Nat) (j : Job), j ∈ (jobs[tid]?).getD [] ∧ d.prog = j.ops) := by
  intro s
  have h := run_inv {} rfl (init jobs) sched (init_inv jobs)
  exact ⟨holders_equal s h, h.chain, h.doneOk, h.roOk, (src_run {} jobs _ sched (src_init jobs)).fromJobs⟩

/-- **No update is lost.** Threads that concurrently append to one key through single-writer
    transactions (read-modify-write, any non-empty pieces `vs`, any schedule): the stored value is
    the concatenation of the pieces of *all* committed transactions, in commit order. -/
theorem c08_no_lost_update (jobs : List (List Job)) (sched : List Nat) (ks : KsId) (k : Key)
    (vs : List Val) (hv : ∀ v ∈ vs, v ≠ [])
    (hform : ((run {} (init jobs) sched).done.map (·.prog)) = vs.map (fun v => [appendOp ks k v])) :
    (stateTop (run {} (init jobs) sched).log ks).get k = if vs = [] then none else some vs.flatten := by
  have h := run_inv {} rfl (init jobs) sched (init_inv jobs)
  exact appends_all_there ks k _ _ h.chain vs hform hv h.doneOk

/-- With the snapshot opened *before* the lock is taken (seeded change C08-1) an update is lost:
    two threads append one byte each, both commit, one byte is stored. -/
theorem c08_snapshot_before_lock_counterexample :
    let jobs := [[{ ops := [appendOp 1 [7] [1]] }], [({ ops := [appendOp 1 [7] [2]] } : Job)]]
    let s := run { snapAfterLock := false } (init jobs) [0, 1, 0, 0, 0, 0, 1, 1, 1, 1]
    s.done.length = 2 ∧ (stateTop s.log 1).get [7] = some [2] := by
  decide

/-! Non-vacuity: the same two jobs under the real protocol – the blocked thread's steps are no-ops,
    both commit, both bytes are stored. -/
example :
    let jobs := [[{ ops := [appendOp 1 [7] [1]] }], [({ ops := [appendOp 1 [7] [2]] } : Job)]]
    let s := run {} (init jobs) [0, 1, 0, 1, 0, 0, 1, 0, 1, 1, 1, 1, 1]
    s.done.length = 2 ∧ (stateTop s.log 1).get [7] = some [1, 2] ∧ s.lock = none := by
  decide

end Fjall.Sw
