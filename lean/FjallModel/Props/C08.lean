/-
  C08 — transaction-local semantics: read-your-writes, last write wins, commit = final write per
  key exactly once.  (Model: `Tx.Base`; spec: a plain map per keyspace.)
-/
import FjallModel.Lemmas.TxBase
namespace Fjall.Tx
open Fjall Fjall.Spec

/-- **Read-your-own-writes / last write wins**, for every in-transaction program over any number of
    keyspaces (point reads, `contains_key`, `size_of`, scans with any bounds, inserts, removes,
    `take` / `fetch_update` / `update_fetch` with *any* update function): every output equals the
    output of a plain map per keyspace that starts as the snapshot and applies each write at once. -/
theorem c08_ryow (snap : KsId → KMap) (prog : List TOp) :
    (run { snap := snap } prog).2 = (refRun snap prog).2 := by
  have h0 : R { snap := snap } snap := fun ks => by
    simp [BaseTx.view, KMap.Equiv.refl]
  exact (run_refines _ _ h0 prog).1

/-- a removed key is absent from point reads and scans alike; an inserted one is present in both -/
theorem c08_point_scan_agree (tx : BaseTx) (ks : KsId) (k : Key) (v : Val) :
    (k, v) ∈ (tx.view ks).toList ↔ tx.get ks k = some v := by
  rw [get_eq_view, toList_eq]
  simp only [List.mem_filterMap, mem_liveKeys]
  constructor
  · rintro ⟨k', _, h⟩
    cases hg : (tx.view ks).get k' with
    | none => simp [hg] at h
    | some w => simp [hg] at h; obtain ⟨rfl, rfl⟩ := h; exact hg
  · intro h
    exact ⟨k, by simp [h], by simp [h]⟩

/-- **Commit applies exactly the final write per key, once**: the emitted batch holds, for every
    (keyspace, key) the transaction wrote, its newest entry and nothing else for that key. -/
theorem c08_commit_final_write_once (tx : BaseTx) :
    (∀ ks k, (tx.commitBatch).find? (fun e => e.ks = ks ∧ e.key = k) = tx.newestOwn ks k) ∧
    ((tx.commitBatch).map fun e => (e.ks, e.key)).Nodup :=
  ⟨fun ks k => commitItems_find tx.mem ks k, commitItems_nodup tx.mem⟩

/-- applying that batch to the snapshot gives the transaction's own final view -/
theorem c08_commit_equals_view (tx : BaseTx) (ks : KsId) :
    (ownView tx.commitBatch (tx.snap ks) ks).Equiv (tx.view ks) := by
  intro k
  have h1 := ownView_get tx.commitBatch (tx.snap ks) ks k
  have h2 := ownView_get tx.mem (tx.snap ks) ks k
  rw [h1]
  show _ = (ownView tx.mem (tx.snap ks) ks).get k
  rw [h2]
  simp only [ownGet, BaseTx.commitBatch, commitItems_find]

/-- rollback / drop emits nothing: a transaction that is not committed contributes no batch.
    (`rollback` consumes the transaction; the committed log is only ever extended by `commit`.) -/
theorem c08_read_only_commit_emits_nothing (snap : KsId → KMap) :
    ({ snap := snap } : BaseTx).commitBatch = [] := rfl

/-! Non-vacuity: a program that overwrites, removes, re-inserts and scans. -/
example :
    (run { snap := fun _ => [([1], some [9])] }
      [.insert 0 [1] [7], .remove 0 [1], .get 0 [1], .insert 0 [2] [5], .scan 0 .unbounded .unbounded]).2
      = [.unit, .unit, .val none, .unit, .pairs [([2], [5])]] := by
  decide

end Fjall.Tx
