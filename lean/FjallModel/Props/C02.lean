/-
  C02 — acknowledged writes survive a process crash, in commit order (log-level model incl. journal
  rotation and eviction; the torn tail of an in-flight append is C03's theorem).
-/
import FjallModel.Lemmas.DbReach
import FjallModel.Props.C03
namespace Fjall.Db
open Fjall Fjall.Spec

/-- **Crash at an operation boundary.** With the default journal persist mode every acknowledged
    operation has reached the journal file before its call returned, so the files after a process
    crash are those of a clean close: recovery yields exactly the state of all acknowledged
    operations, for all keyspaces together — with any number of sealed journals, some already
    reclaimed, and flushes of the keyspaces at different points. -/
theorem c02_crash_prefix (ops : List DOp) (hwf : ProgWF {} ops) (id : KsId) :
    ((drun {} ops).recover.absOf id).Equiv ((drun {} ops).absOf id) :=
  recover_abs _ (drun_inv {} ops dinv_init hwf) id

/-- **Crash in the middle of an operation.** The in-flight write is in the journal either as a
    complete batch or not at all (`c03_torn_tail`: an incomplete batch is discarded as a whole, at
    every byte offset, with any zero padding). In both cases recovery yields the state of a prefix
    of the committed operations: all acknowledged ones, plus possibly the in-flight one. -/
theorem c02_crash_mid_operation (ops : List DOp) (hwf : ProgWF {} ops) (items : List (KsId × LOp))
    (hitems : (DOp.write items).WF (drun {} ops)) (id : KsId) :
    -- the batch did not reach the file completely
    ((drun {} ops).recover.absOf id).Equiv ((drun {} ops).absOf id) ∧
    -- the batch is complete in the file (the call may or may not have returned)
    (((drun {} ops).write items).recover.absOf id).Equiv (((drun {} ops).write items).absOf id) := by
  refine ⟨recover_abs _ (drun_inv {} ops dinv_init hwf) id, ?_⟩
  have h := drun_inv {} ops dinv_init hwf
  exact recover_abs _ (dstep_inv _ (.write items) h hitems) id

end Fjall.Db
