/-
  C12 — keyspaces are isolated; a deleted keyspace never comes back (log-level model).
-/
import FjallModel.Lemmas.DbReach
namespace Fjall.Db
open Fjall Fjall.Spec

/-- **Isolation**: a write / batch / clear that does not name keyspace `b` leaves `b` unchanged. -/
theorem c12_isolation (db : DbL) (items : List (KsId × LOp)) (b : KsId)
    (hb : ∀ it ∈ items, it.1 ≠ b) : (db.write items).absOf b = db.absOf b := by
  simp only [DbL.absOf, DbL.find, write_kss]
  rw [find_map_id _ _ (fun k => by simp [replayKs_id])]
  cases hf : db.kss.find? (·.id = b) with
  | none => rfl
  | some k =>
    simp only [Option.map_some]
    have hkid : k.id = b := by simpa using List.find?_some hf
    rw [replayKs_abs]
    have : (List.filter (fun r => decide (r.ks = k.id))
        (items.map fun (x : KsId × LOp) => (⟨db.seqno, x.1, x.2, false⟩ : Rec))) = [] := by
      rw [List.filter_eq_nil_iff]
      intro r hr
      obtain ⟨it, hit, rfl⟩ := List.mem_map.mp hr
      simp only [decide_eq_true_eq]
      rw [hkid]; exact hb it hit
    simp only [this, opsOf, List.map_nil, applyAll, List.foldl_nil]

/-- after `delete_keyspace` the keyspace is gone -/
theorem c12_deleted_is_gone (db : DbL) (id : KsId) : (db.deleteKs id).find id = none := by
  simp only [DbL.find, DbL.deleteKs]
  rw [List.find?_eq_none]
  intro k hk
  have := (List.mem_filter.mp hk).2
  simpa using this

/-- **No id is handed out while the journal still mentions it** (repaired, F1): in every reachable
    state, a newly created keyspace gets an id that no live keyspace has and no record in any journal file
    (sealed or active) carries — so records of a deleted keyspace can never be replayed into a later one. -/
theorem c12_new_id_is_fresh (ops : List DOp) (hwf : ProgWF {} ops) (name : String)
    (hnew : ∀ k ∈ (drun {} ops).kss, k.name ≠ name) :
    let db := drun {} ops
    (∀ k ∈ db.kss, k.id ≠ (db.createKs name).2) ∧ (∀ r ∈ allRecs db, r.ks ≠ (db.createKs name).2) := by
  intro db
  have h := drun_inv {} ops dinv_init hwf
  have hid : (db.createKs name).2 = db.nextKsId := by
    simp only [DbL.createKs]
    have : db.kss.find? (·.name = name) = none := by
      rw [List.find?_eq_none]
      intro k hk
      simpa using hnew k hk
    simp [this]
  rw [hid]
  exact ⟨fun k hk => Nat.ne_of_lt (h.idsBelow k hk), fun r hr => Nat.ne_of_lt (h.recsBelow r hr)⟩

/-- a re-created name starts empty -/
theorem c12_recreated_is_empty (ops : List DOp) (hwf : ProgWF {} ops) (name : String)
    (hnew : ∀ k ∈ (drun {} ops).kss, k.name ≠ name) :
    let db := drun {} ops
    (db.createKs name).1.absOf (db.createKs name).2 = [] := by
  intro db
  have h := drun_inv {} ops dinv_init hwf
  have hnone : db.kss.find? (·.name = name) = none := by
    rw [List.find?_eq_none]; intro k hk; simpa using hnew k hk
  simp only [DbL.createKs, hnone, DbL.absOf, DbL.find]
  rw [List.find?_append]
  have : db.kss.find? (fun k => k.id = db.nextKsId) = none := by
    rw [List.find?_eq_none]
    intro k hk
    have := h.idsBelow k hk
    simp only [decide_eq_true_eq]
    exact Nat.ne_of_lt this
  simp [this, KsL.abs, applyAll]

/-! Regression for findings F1 / F20 (fixed): delete the keyspace with the highest id, reopen,
    create a new keyspace, reopen — the old record is not replayed into it. -/
example :
    (drun {} [.createKs "a", .createKs "b", .write [(2, .put [7] [7])], .deleteKs 2, .reopen,
      .createKs "c", .reopen]).kss.map (fun k => (k.id, k.name, k.abs.toList)) = [(1, "a", []), (3, "c", [])] := by
  decide

end Fjall.Db
