/-
  C01 — every keyspace behaves like an ordered byte-string map; background maintenance is
  invisible; point reads and scans agree.
-/
import FjallModel.Lemmas.KvRefine
namespace Fjall.Mvcc
open Fjall Fjall.Spec

/-- **Ordered-map equivalence.** For every program over any number of keyspaces — inserts,
    removes, batches, clears, bulk ingestions, with memtable rotations, flushes (any GC watermark)
    and compactions (any contiguous segment of runs, any watermark, tombstone eviction at the last
    run) placed *anywhere* — every read (get, contains_key, size_of, range scans with any bounds,
    len, is_empty, first / last) returns what a plain sorted map per keyspace returns when the
    maintenance operations are simply erased.  A batch may name a key any number of times (all
    its items share one seqno; the memtable replaces an entry with the same key and seqno, so the
    last item wins, as in the map).  `WF` only restricts ingestions, which the real code refuses
    unless their keys are strictly ascending. -/
theorem c01_refines_map (prog : List KvOp) (hwf : ∀ op ∈ prog, op.WF) :
    (kvRun {} prog).2 = (specRun (fun _ => []) prog).2 :=
  (kv_run_refines {} _ rel_init prog hwf).1

/-- **Point reads and scans agree** in every reachable state: the first-hit lookup that `get`
    performs returns exactly what the merging scan shows for that key. -/
theorem c01_get_scan_agree (prog : List KvOp) (hwf : ∀ op ∈ prog, op.WF) (ks : KsId) (k : Key) (v : Val) :
    let s := (kvRun {} prog).1
    ((k, v) ∈ ((s.trees ks).absMap none).toList ↔ (s.trees ks).pointGet none k = some v) := by
  intro s
  have hrel := (kv_run_refines {} _ rel_init prog hwf).2 ks
  rw [pointGet_eq_abs _ _ _ hrel.inv.ordered hrel.inv.distinct, ← absMap_get, toList_eq]
  simp only [List.mem_filterMap, mem_liveKeys]
  constructor
  · rintro ⟨k', _, h⟩
    cases hg : ((s.trees ks).absMap none).get k' with
    | none => simp [hg] at h
    | some w => simp [hg] at h; obtain ⟨rfl, rfl⟩ := h; exact hg
  · intro h
    have h' : ((s.trees ks).absMap none).get k = some v := h
    exact ⟨k, by simp [h'], by simp [h']⟩

/-- **Maintenance is invisible** (single steps, any reachable tree): rotation, flush and
    compaction leave the logical content of a tree unchanged. -/
theorem c01_maintenance_invisible (t : Tree) (h : Inv t) (k : Key) :
    t.rotate.absGet none k = t.absGet none k ∧
    (∀ w, (t.flush w).absGet none k = t.absGet none k) ∧
    (∀ i n w, (t.compact i n w).absGet none k = t.absGet none k) :=
  ⟨rotate_abs t k none, fun w => flush_abs t w h k, fun i n w => compact_abs t i n w h k⟩

/-- the invariant that makes first-hit reads correct is preserved by every operation -/
theorem c01_invariant_reachable (prog : List KvOp) (hwf : ∀ op ∈ prog, op.WF) (ks : KsId) :
    Inv ((kvRun {} prog).1.trees ks) :=
  ((kv_run_refines {} _ rel_init prog hwf).2 ks).inv

/-! Non-vacuity: overwrite, rotate, flush with GC, remove, compact with eviction, then read. -/
example :
    (kvRun {} [.insert 1 [1] [10], .insert 1 [1] [11], .rotate 1, .flush 1 5, .remove 1 [1],
      .insert 1 [2] [20], .rotate 1, .flush 1 5, .compact 1 0 2 9, .get 1 [1], .get 1 [2],
      .scan 1 .unbounded .unbounded]).2.drop 9
      = [.val none, .val (some [20]), .pairs [([2], [20])]] := by
  decide

end Fjall.Mvcc
