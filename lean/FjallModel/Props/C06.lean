/-
  C06 — a committed batch becomes visible to readers atomically (Conc model: every thread schedule
  of writers, snapshot-taking readers, version registrations and memtable rotations).
-/
import FjallModel.Lemmas.Conc
namespace Fjall.Conc
open Fjall Fjall.Spec

/-- **Atomic visibility, for every program and every schedule** (repaired code, finding F6):
    each read through a snapshot / read transaction / scan with instant `i` returns the value of the
    state in which exactly the writes with seqno below `i` are applied, each entirely — although
    writers apply their items one by one, other threads draw seqnos and advance the shared visible
    seqno in between, and `open` reads the counter and the write floor in two separate steps. -/
theorem c06_atomic (progs : List (List Cmd)) (sched : List Tid) :
    AtomicVisible (run {} (init progs) sched) := by
  intro o ho
  exact ((run_inv {} rfl _ sched (inv_init progs)).obsOk o ho).2

/-- **Commit order**: the journal order of writes is their seqno order, so a view that sees a write
    (`seqno < i`) sees every write committed before it. -/
theorem c06_commit_order (progs : List (List Cmd)) (sched : List Tid) (i : Nat) :
    let s := run {} (init progs) sched
    s.batches.Pairwise (fun a b => a.1 < b.1) ∧
    ∀ pre b post, s.batches = pre ++ [b] ++ post → b.1 < i → ∀ b' ∈ pre, b'.1 < i := by
  intro s
  have h := (run_inv {} rfl _ sched (inv_init progs)).batSorted
  refine ⟨h, ?_⟩
  intro pre b post hb hbi b' hb'
  have h' : (pre ++ [b] ++ post).Pairwise (fun a b => a.1 < b.1) := hb ▸ h
  rw [List.pairwise_append] at h'
  have := (List.pairwise_append.mp h'.1).2.2 b' hb' b (by simp)
  omega

/-- **No view ever reaches a write in flight**: in every reachable state every view's instant is at
    most the seqno of the write that currently holds the journal lock (so none of its items, applied
    or not, is visible to it), and at most the seqno generator (so no later write is). -/
theorem c06_view_below_inflight (progs : List (List Cmd)) (sched : List Tid) (t : Tid) (th : Thread) (i : Nat)
    (hth : (run {} (init progs) sched).threads[t]? = some th) (hv : th.view = some i) :
    i ≤ (run {} (init progs) sched).counter ∧
    ∀ sq, inflight (run {} (init progs) sched) = some sq → i ≤ sq :=
  ((run_inv {} rfl _ sched (inv_init progs)).thrOk t th hth).view i hv

/-! The schedule of finding F6: a writer applies the first of two items, a compaction of another
    keyspace registers a version (visible seqno jumps past the batch), a reader opens a snapshot and
    reads both keys. -/
def f6Progs : List (List Cmd) :=
  [[.write [⟨1, [1], some [9]⟩, ⟨1, [2], some [9]⟩]], [.register], [.snap, .read 1 [1], .read 1 [2]]]
def f6Sched : List Tid := [0, 0, 0, 0, 1, 1, 2, 2, 2, 2, 0, 0, 0]

/-- **The code before the repair violates the property** (finding F6, fixed): with `open` handing out
    the raw counter the reader sees the first item of the batch and not the second. -/
theorem c06_unrepaired_counterexample : ¬ AtomicVisible (run { useFloor := false } (init f6Progs) f6Sched) := by
  decide

/-- non-vacuity: under the repaired protocol the same schedule yields two observations through a
    view that was held down to the write floor -/
example : (run {} (init f6Progs) f6Sched).obs.length = 2 ∧
    (run {} (init f6Progs) f6Sched).obs.all (fun o => o.view = 0 ∧ o.res = none) := by decide

end Fjall.Conc
