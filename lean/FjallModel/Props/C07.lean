/-
  C07 — optimistic transactions are serializable.
  Stage 2 (bottom of the file): whole histories, by induction over events (Lemmas/SsiHist).
  Stage 1: (i) every read method's result depends on the snapshot only through the footprint it
  records, (ii) a commit that passes validation against the transactions committed since its
  snapshot observes exactly what it would observe if executed at its commit point.
-/
import FjallModel.Lemmas.Ssi
import FjallModel.Lemmas.SsiHist
import FjallModel.Lemmas.CommitMutex
namespace Fjall.Tx
open Fjall Fjall.Spec

/-- **Footprint soundness** for whole in-transaction programs (all read methods: get,
    contains_key, size_of, range, prefix, iter, first/last, len, is_empty; all write methods incl.
    take / fetch_update / update_fetch with any update function). -/
theorem c07_footprint_sound (t t' : OTx) (prog : List XOp) (hs : SameOwn t t')
    (ha : AgreeOn (prog.flatMap footOf) t.base.snap t'.base.snap) :
    (xrun t prog).2 = (xrun t' prog).2 ∧ SameOwn (xrun t prog).1 (xrun t' prog).1 :=
  xrun_footprint_sound t t' prog hs ha

/-- **Validated commits are serializable at their commit point.**
    `S` is the transaction's snapshot, `S'` the committed state at the moment of its commit; they
    differ at most on keys written by the transactions `others` committed in between.  If
    validation finds no conflict with any of those, then executing the same program on `S'`
    (i.e. serially, after all of them) yields the same observations and the same write set. -/
theorem c07_validated_commit_replays (S S' : KsId → KMap) (i i' : Nat) (prog : List XOp)
    (others : List (List (KsId × Key)))
    (hvalid : ∀ c ∈ others,
      hasConflict (xrun { instant := i, base := { snap := S } } prog).1.reads c = false)
    (hdiff : ∀ ks k, (∀ c ∈ others, (ks, k) ∉ c) → (S ks).get k = (S' ks).get k) :
    (xrun { instant := i', base := { snap := S' } } prog).2
        = (xrun { instant := i, base := { snap := S } } prog).2 ∧
    (xrun { instant := i', base := { snap := S' } } prog).1.base.commitBatch
        = (xrun { instant := i, base := { snap := S } } prog).1.base.commitBatch := by
  have hreads := xrun_reads { instant := i, base := { snap := S } } prog
  simp only [List.nil_append] at hreads
  have hagree : AgreeOn (prog.flatMap footOf) S S' := by
    intro ks k ⟨f, hf, hc⟩
    apply hdiff
    intro c hcmem hin
    have := hasConflict_false _ c (hvalid c hcmem) f (by rw [hreads]; exact hf) (ks, k) hin
    rw [hc] at this
    exact Bool.noConfusion this
  obtain ⟨h1, h2, _⟩ := xrun_footprint_sound
    { instant := i, base := { snap := S } } { instant := i', base := { snap := S' } } prog
    ⟨rfl, rfl⟩ hagree
  exact ⟨h1.symm, by simp only [BaseTx.commitBatch, h2]⟩

/-- every key a transaction writes is in its conflict-key set (so `hdiff` above is what the
    committed log gives) -/
theorem c07_writes_marked (t : OTx) (op : XOp) :
    ∀ e ∈ (xstep t op).1.base.mem, e ∈ t.base.mem ∨ (e.ks, e.key) ∈ (xstep t op).1.wkeys := by
  intro e he
  cases op <;>
    simp only [xstep, OTx.markRead, OTx.markWrite, BaseTx.insert, BaseTx.remove, BaseTx.push,
      BaseTx.fetchUpdate, BaseTx.updateFetch, BaseTx.take] at he ⊢
  all_goals first
    | (left; exact he)
    | (simp only [List.mem_cons] at he ⊢
       rcases he with rfl | he
       · right; left; rfl
       · left; exact he)
    | (repeat' split at he
       all_goals first
         | (left; exact he)
         | (simp only [BaseTx.insert, BaseTx.remove, BaseTx.push, List.mem_cons] at he ⊢
            rcases he with rfl | he
            · right; left; rfl
            · left; exact he))

/-- Finding F7 (repaired by a `fix:` commit): with `size_of` recording no footprint, footprint
    soundness fails — two snapshots that agree on everything recorded give different answers. -/
theorem c07_counterexample_size_of_unmarked :
    let t : OTx := { instant := 0, base := { snap := fun _ => [([1], some [7])] } }
    let t' : OTx := { instant := 0, base := { snap := fun _ => [] } }
    AgreeOn [] t.base.snap t'.base.snap ∧
      (xstep t (.sizeOf 0 [1])).2 ≠ (xstep t' (.sizeOf 0 [1])).2 := by
  refine ⟨fun ks k ⟨f, hf, _⟩ => by simp at hf, by decide⟩

/-! Non-vacuity of `c07_validated_commit_replays`: a transaction that scanned `[a, c)` and wrote
    `z`, while another transaction wrote `x` (outside every footprint). -/
example :
    hasConflict (xrun { instant := 3, base := { snap := fun _ => [([0x62], some [1])] } }
      [.range 0 (.incl [0x61]) (.excl [0x63]), .insert 0 [0x7a] [9]]).1.reads [(0, [0x78])] = false := by
  decide

/-! ## Whole histories -/

/-- **Serializability of whole histories.**  For every history of optimistic transactions — any
    number open at once, begins, reads and writes of all kinds, commits (validated or refused),
    rollbacks and tracker GC runs interleaved in any order — the transactions that committed
    writes, taken in commit order and executed *one after the other*, each from the log its
    predecessors produced, return exactly the results they returned in the concurrent history and
    write exactly the batches that make up the committed log.  (`i'` = the snapshot instant the
    serial execution would have: irrelevant.)  Pruning of the conflict table is covered: it never
    removes an entry an open transaction still has to be validated against (tracker invariant). -/
theorem c07_serializable (evs : List HEv) :
    let s := hrun {} evs
    Chain s.done s.db.log ∧
    ∀ d ∈ s.done, ∀ i', (xrun (fresh i' (stateTop d.before)) d.prog).2 = d.outs ∧
      (xrun (fresh i' (stateTop d.before)) d.prog).1.base.commitBatch = d.batch := by
  intro s
  have h := hrun_inv {} evs hinv_init
  exact ⟨h.chain, h.doneOk⟩

/-- **Read-only transactions** observe the committed state as of their snapshot: executed alone
    right after the last commit their snapshot contains, they return the same results. -/
theorem c07_readonly_at_snapshot (evs : List HEv) :
    ∀ d ∈ (hrun {} evs).doneRo, ∀ i', (xrun (fresh i' (stateTop d.before)) d.prog).2 = d.outs :=
  (hrun_inv {} evs hinv_init).roOk

/-- a refused commit leaves the committed log untouched -/
theorem c07_conflict_no_effect (db : SsiDb) (t : OTx) (h : (db.commit t).2 = .conflict) :
    (db.commit t).1.log = db.log ∧ (db.commit t).1.seqno = db.seqno := by
  unfold SsiDb.commit at h ⊢
  by_cases hm : t.base.mem.isEmpty = true
  · simp [hm] at h
  · have hm' : t.base.mem.isEmpty = false := by simpa using hm
    simp only [hm', Bool.false_eq_true, if_false] at h ⊢
    by_cases hc : (db.committed.any fun c => decide (c.ts ≥ t.instant + 1) && hasConflict t.reads c.keys) = true
    · simp [hc]
    · have hc' : (db.committed.any fun c => decide (c.ts ≥ t.instant + 1) && hasConflict t.reads c.keys) = false := by simpa using hc
      simp [hc'] at h

/-! Non-vacuity: two transactions race on a write skew; the second commit is refused, the first is
    in `done`; a third one commits afterwards. -/
example :
    let s := hrun {} [.begin, .begin, .op 0 (.get 1 [1]), .op 1 (.get 1 [2]), .op 0 (.insert 1 [2] [9]),
      .op 1 (.insert 1 [1] [9]), .commit 1, .commit 0, .begin, .op 0 (.get 1 [1]), .op 0 (.insert 1 [3] [3]), .commit 0]
    s.done.length = 2 ∧ s.db.log.length = 2 ∧ s.open_.length = 0 := by
  decide

end Fjall.Tx

/-! ### Why a commit may be taken as one event: the commit mutex across threads

    `Oracle::with_commit` validates and applies in separate steps; `CommitMutex` runs any number of
    threads through those steps under every schedule.  The semantics of the two halves are
    parameters, `ssiSem` is the `Tx.Ssi` instance. -/

namespace Fjall.CommitMutex
open Fjall Fjall.Tx

/-- **Commits are atomic under the commit mutex.** For any validation / application semantics,
    any number of threads with any lists of commit requests and every schedule: at most one thread
    is inside a commit; the verdicts reported so far are those of the finished commits executed
    one after the other as single events (in the order they finished); and whenever no thread is
    inside a commit the shared state is exactly the state of that sequential execution. -/
theorem c07_commit_mutex_atomic {D T : Type} (m : Sem D T) (d0 : D) (jobs : List (List T)) (sched : List Nat) :
    let s := run {} m (init d0 jobs) sched
    (∀ i j, (s.threads i).phase ≠ .idle → (s.threads j).phase ≠ .idle → i = j) ∧
    (runAtomic m d0 (s.done.map (·.1))).2 = s.done.map (·.2) ∧
    (s.mutex = none → s.db = (runAtomic m d0 (s.done.map (·.1))).1) := by
  intro s
  have h : Inv m d0 s := run_inv m d0 _ (init_inv m d0 jobs) sched
  refine ⟨?_, h.verdicts, ?_⟩
  · intro i j hi hj
    have h1 := h.excl i hi
    have h2 := h.excl j hj
    rw [h1] at h2
    exact Option.some.inj h2
  · intro hn
    apply h.base
    intro i hv
    have := h.excl i (by rw [hv]; simp)
    rw [hn] at this
    cases this

/-- a thread that has validated and not yet applied still sees the state it validated against:
    nothing was committed in between -/
theorem c07_validation_still_holds_at_apply {D T : Type} (m : Sem D T) (d0 : D) (jobs : List (List T))
    (sched : List Nat) (i : Nat) (t : T) (rest : List T) :
    let s := run {} m (init d0 jobs) sched
    (s.threads i).phase = .validated → (s.threads i).todo = t :: rest →
    m.validate (runAtomic m d0 (s.done.map (·.1))).1 t = (s.db, true) := by
  intro s
  exact (run_inv m d0 _ (init_inv m d0 jobs) sched).mid i t rest

/-- the `Tx.Ssi` commit of a writing transaction is `ssiSem`'s atomic commit followed by the drop of
    the transaction's nonce: the event model's commit is the instance the theorem above is about -/
theorem c07_ssi_commit_is_atomic (db : SsiDb) (t : OTx) (hw : t.base.mem.isEmpty = false) :
    db.commit t =
      ({ (ssiSem.atomic db t).1 with tr := Tracker.step (ssiSem.atomic db t).1.tr (.close t.instant) },
       if (ssiSem.atomic db t).2 then .ok else .conflict) := by
  unfold SsiDb.commit Sem.atomic ssiSem
  simp only [hw, Bool.false_eq_true, if_false]
  by_cases hc : (db.committed.any fun c => c.ts ≥ t.instant + 1 && hasConflict t.reads c.keys) = true
  · simp [hc]
  · simp [hc]

/-- **Without the mutex across validation and application (seeded change C07-7) commits are not
    atomic**: both withdrawals validate against the same state and both are applied; executed one
    after the other, in either order, the second one is refused. -/
theorem c07_mutex_released_after_validation_counterexample :
    let s := run { holdAcross := false } skew (init (50, 50) [[true], [false]]) [0, 0, 1, 1, 0, 1]
    s.db = (-50, -50) ∧ s.done.map (·.2) = [true, true] ∧
    (runAtomic skew (50, 50) [true, false]).2 = [true, false] ∧
    (runAtomic skew (50, 50) [false, true]).2 = [true, false] := by
  decide

/-- non-vacuity: with the mutex held the same schedule lets the second thread wait, and the state is
    the sequential one -/
example :
    let s := run {} skew (init (50, 50) [[true], [false]]) [0, 0, 1, 1, 0, 1, 1, 1]
    s.db = (-50, 50) ∧ s.done.map (·.2) = [true, false] ∧ s.mutex = none := by
  decide

end Fjall.CommitMutex
