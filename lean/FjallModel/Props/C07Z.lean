import FjallModel.Lemmas.SsiHist
namespace Fjall.Tx
open Fjall Fjall.Spec

/-- **Serializability of whole histories.**  For every history of optimistic transactions — any
    number open at once, begins, reads and writes of all kinds, commits (validated or refused),
    rollbacks and tracker GC runs interleaved in any order — the transactions that committed
    writes, taken in commit order and executed *one after the other*, each from the log its
    predecessors produced, return exactly the results they returned in the concurrent history and
    write exactly the batches that make up the committed log.  (`i'` = the snapshot instant the
    serial execution would have: irrelevant.)  Pruning of the conflict table is covered: it never
    removes an entry an open transaction still has to be validated against (tracker invariant). -/
theorem c07_serializable (evs : List HEv) :
    let s := hrun {} evs
    Chain s.done s.db.log ∧
    ∀ d ∈ s.done, ∀ i', (xrun (fresh i' (stateTop d.before)) d.prog).2 = d.outs ∧
      (xrun (fresh i' (stateTop d.before)) d.prog).1.base.commitBatch = d.batch := by
  intro s
  have h := hrun_inv {} evs hinv_init
  exact ⟨h.chain, h.doneOk⟩

/-- **Read-only transactions** observe the committed state as of their snapshot: executed alone
    right after the last commit their snapshot contains, they return the same results. -/
theorem c07_readonly_at_snapshot (evs : List HEv) :
    ∀ d ∈ (hrun {} evs).doneRo, ∀ i', (xrun (fresh i' (stateTop d.before)) d.prog).2 = d.outs :=
  (hrun_inv {} evs hinv_init).roOk

/-- a refused commit leaves the committed log untouched -/
theorem c07_conflict_no_effect (db : SsiDb) (t : OTx) (h : (db.commit t).2 = .conflict) :
    (db.commit t).1.log = db.log ∧ (db.commit t).1.seqno = db.seqno := by
  unfold SsiDb.commit at h ⊢
  by_cases hm : t.base.mem.isEmpty = true
  · simp [hm] at h
  · have hm' : t.base.mem.isEmpty = false := by simpa using hm
    simp only [hm', Bool.false_eq_true, if_false] at h ⊢
    by_cases hc : (db.committed.any fun c => decide (c.ts ≥ t.instant + 1) && hasConflict t.reads c.keys) = true
    · simp [hc]
    · have hc' : (db.committed.any fun c => decide (c.ts ≥ t.instant + 1) && hasConflict t.reads c.keys) = false := by simpa using hc
      simp [hc'] at h

/-! Non-vacuity: two transactions race on a write skew; the second commit is refused, the first is
    in `done`; a third one commits afterwards. -/
example :
    let s := hrun {} [.begin, .begin, .op 0 (.get 1 [1]), .op 1 (.get 1 [2]), .op 0 (.insert 1 [2] [9]),
      .op 1 (.insert 1 [1] [9]), .commit 1, .commit 0, .begin, .op 0 (.get 1 [1]), .op 0 (.insert 1 [3] [3]), .commit 0]
    s.done.length = 2 ∧ s.db.log.length = 2 ∧ s.open_.length = 0 := by
  decide

end Fjall.Tx
