/-
  C15 — journal records round-trip bit-exactly (stage 1: codec + reader round trip).
  Property theorems only; helper lemmas live in FjallModel/Lemmas.
-/
import FjallModel.Lemmas.ReadJournal
import FjallModel.Lemmas.ReaderSound
namespace Fjall.Journal
open Fjall

/-- Every well-formed entry decodes back to itself, whatever follows it in the file. -/
theorem c15_decode_encode (p : Params) (c : Codec) (hp : p.Valid) (hc : c.Law) (e : Entry)
    (he : e.WF c) (rest : Bytes) :
    decodeEntry p c (encodeEntry p c e ++ rest) = some (e, rest) :=
  decode_encode p c hp hc e he rest

/-- **Round trip.** Any sequence of batches (any number of items, keyspaces, kinds, clears, any
    key/value bytes within the field widths, any per-item compression choice) written by the
    journal writer is read back as exactly those batches, the file is left untouched and no error
    is raised. The reader has no configuration parameter, hence "written under one compression
    setting, read under the other" is this same statement. -/
theorem c15_roundtrip (p : Params) (c : Codec) (h : Bytes → Nat) (hp : p.Valid) (hc : c.Law)
    (hh : ∀ x, h x < 2^64) (bs : List WBatch) (hbs : ∀ b ∈ bs, b.WF c) :
    readJournal p c h (encodeBatches p c h bs) =
      ⟨bs.map WBatch.toBatch, (encodeBatches p c h bs).length, none⟩ := by
  obtain ⟨fuel, hr⟩ := readJournal_prefix p c h hp hc hh bs hbs []
  rw [List.append_nil] at hr
  rw [hr, readLoop_none p c h _ _ [] fuel (decodeEntry_nil p c)]
  have hcl := afterBatches_clean p c h bs
  have hpos := afterBatches_pos p c h bs
  obtain ⟨h1, _, _, _, _, h6⟩ := hcl
  simp [ReadResult.prepend, RState.stopLen, h1, hpos]

/-- **No batch without its checksum (arbitrary bytes).** Whatever bytes the journal file holds –
    written by this writer, torn, altered, or never written by fjall at all – every batch the
    reader hands to recovery sits in the file between a Start marker and an End marker, has
    exactly the number of payload entries the Start marker announces, consists of exactly the
    entries decoded in between, and the End marker's stored checksum equals the hash of the
    canonical re-encoding of exactly those entries. There is no other way for `readJournal` to
    emit a batch; an altered file can therefore yield different data only through a collision of
    the hash function (a parameter here; xxh3-64 in the code). No hypothesis on `x`, `p`, `c`, `h`. -/
theorem c15_emitted_batch_authenticated (p : Params) (c : Codec) (h : Bytes → Nat) (x : Bytes)
    (b : Batch) (hb : b ∈ (readJournal p c h x).batches) :
    ∃ (pre seg post : Bytes) (es : List Entry) (sum : Nat),
      x = pre ++ seg ++ post ∧
      Parses p c seg (.start es.length b.seqno :: es ++ [.fin sum]) ∧
      (∀ e ∈ es, e.isPayload = true) ∧
      b.items = itemsOf es ∧ b.clears = clearsOf es ∧
      h (encodeBody p c es) = sum :=
  readJournal_sound p c h x b hb

/-! Non-vacuity: the hypotheses are met by the constants of the pinned source, by an identity
    codec, and by a concrete two-batch journal mixing a compressed item, a tombstone and a clear. -/

def idCodec : Codec :=
  { compress := fun v => v, decompress := fun s n => if s.length = n then some s else none }

theorem idCodec_law : idCodec.Law := by intro v; simp [idCodec]

example : Params.default.Valid := by decide

def exBatch1 : WBatch :=
  { seqno := 7, entries := [.item ⟨1, [0x61], [1,2,3], .value, .lz4⟩, .item ⟨2, [0x62], [], .tomb, .none⟩] }
def exBatch2 : WBatch := { seqno := 8, entries := [.clear 1] }

example : ∀ b ∈ [exBatch1, exBatch2], b.WF idCodec := by
  intro b hb
  simp at hb
  rcases hb with rfl | rfl <;>
    simp [WBatch.WF, exBatch1, exBatch2, Entry.isPayload, Entry.WF, Item.WF, Item.stored, idCodec]

/-- non-vacuity of `c15_emitted_batch_authenticated`: batches are emitted for a real journal -/
example (h : Bytes → Nat) (hh : ∀ x, h x < 2^64) :
    (readJournal Params.default idCodec h
      (encodeBatches Params.default idCodec h [exBatch1, exBatch2])).batches.length = 2 := by
  rw [c15_roundtrip Params.default idCodec h (by decide) idCodec_law hh [exBatch1, exBatch2]
    (by
      intro b hb
      simp at hb
      rcases hb with rfl | rfl <;>
        simp [WBatch.WF, exBatch1, exBatch2, Entry.isPayload, Entry.WF, Item.WF, Item.stored, idCodec])]
  rfl

end Fjall.Journal
