/-
  C05 — snapshots are frozen in time.  Stage 1: the snapshot tracker keeps the GC watermark
  below every live snapshot instant, for every history of open / clone / close / publish / gc /
  pullup and for every DashMap iteration order.
-/
import FjallModel.Lemmas.Tracker
import FjallModel.Lemmas.Conc
namespace Fjall.Tracker

/-- **Tracker invariant.** In every state reachable by disciplined operations (a nonce is cloned
    and closed only while alive; `gc` may visit the table in *any* order):
    (A) the table counts every live nonce, (B) the watermark is strictly below every live non-zero
    instant (and 0 while an instant-0 view lives), (C) the watermark is below the visible seqno,
    (D) no table entry lies in the future. -/
theorem c05_tracker_inv (g : G) (h : Reach g) : Inv g := reach_inv g h

/-- the same over explicit operation lists -/
theorem c05_tracker_inv_run (ops : List Op) (g : G) (hg : Inv g)
    (hd : ∀ (pre : List Op) (o : Op) (post : List Op), ops = pre ++ o :: post →
      Disciplined (runG g pre) o) : Inv (runG g ops) := by
  induction ops generalizing g with
  | nil => exact hg
  | cons o os ih =>
    have h0 : Disciplined g o := hd [] o os rfl
    apply ih (stepG g o) (step_inv g o h0 hg)
    intro pre o' post heq
    have := hd (o :: pre) o' post (by simp [heq])
    simpa [runG] using this

/-- (E) the watermark never moves backwards — although `pullup` stores instead of taking a max. -/
theorem c05_watermark_monotone (g : G) (o : Op) (h : Reach g) : g.t.wm ≤ (stepG g o).t.wm :=
  wm_mono g o (reach_inv g h)

/-- What protects a reader: while a nonce at instant `i` is alive, every watermark handed to
    flush / compaction / version-history GC is `≤ i - 1`. -/
theorem c05_live_instant_protected (g : G) (h : Reach g) (i : Nat) (hi : i ∈ g.live) :
    g.t.wm ≤ i - 1 := (reach_inv g h).safe i hi

/-- Finding F19 (repaired by a `fix:` commit): with `0` as the "nothing retained yet" marker the
    result depended on the DashMap order; visiting `5, 0, 9` with live views at 0, 5 and 9 lifted
    the watermark to 8, past the live view at 5. -/
theorem c05_counterexample_gc_sentinel :
    let t : Tracker := { data := [(5, 1), (0, 1), (9, 1)], seqno := 12, wm := 0 }
    (gcOld t.data t).wm = 8 ∧ (gcWith t.data t).wm = 0 := by
  decide

/-! Non-vacuity: a reachable state with two nonces at one instant, a `gc` between the closes. -/
example : Reach (runG {} [.open, .open, .publish 4, .open, .close 0, .gc [(0, 1), (5, 1)]]) := by
  simp only [runG]
  refine Reach.step _ _ (Reach.step _ _ (Reach.step _ _ (Reach.step _ _ (Reach.step _ _
    (Reach.step _ _ Reach.init ?_) ?_) ?_) ?_) ?_) ?_ <;> simp [Disciplined, stepG, step, bump, decr]

end Fjall.Tracker

/-! ### the GC watermark under concurrency (Conc model) -/
namespace Fjall.Conc
open Fjall Fjall.Spec

/-- **The GC watermark never passes a live view, in every schedule**: with snapshots being opened in
    two steps (counter, then write floor) under the shared GC lock, writers setting and clearing the
    write floor, version registrations advancing the visible seqno, and `gc` runs (explicit, after
    memtable rotations, after ingestions) interleaved in any order, the watermark handed to flushes
    and compactions is at most the instant of every live snapshot, and at most the instant any
    snapshot that is being opened will get.  So no version a live view can read is ever collected. -/
theorem c05_watermark_below_views (progs : List (List Cmd)) (sched : List Tid) (t : Tid) (th : Thread)
    (hth : (run {} (init progs) sched).threads[t]? = some th) :
    (∀ i, th.view = some i → (run {} (init progs) sched).wm ≤ i) ∧
    (∀ v, th.phase = .sLoaded v → (run {} (init progs) sched).wm ≤ instantOf {} (run {} (init progs) sched) v) := by
  have hi := run_inv {} rfl _ sched (inv_init progs)
  have ok := hi.thrOk t th hth
  refine ⟨ok.wmView, ?_⟩
  intro v hv
  have hwv := ok.wmLoaded v hv
  simp only [instantOf, if_true]
  cases hf : (run {} (init progs) sched).floor with
  | none => exact hwv
  | some F =>
    simp only
    split
    · exact hwv
    · exact hi.wmFloor F hf

/-- the watermark only ever moves up to "lowest live instant − 1" (it is strictly below a live view
    unless that view's instant is 0) — non-vacuity: a GC with a live snapshot at instant 3 -/
example :
    let s := run {} (init [[.write [⟨1, [1], some [1]⟩], .write [⟨1, [1], some [2]⟩], .write [⟨1, [1], some [3]⟩], .gc],
                           [.snap, .read 1 [1], .close, .gc]])
      [0,0,0,0,0,0, 0,0,0,0,0,0, 0,0,0,0,0,0, 1,1, 0, 1, 1, 1]
    s.wm = 2 ∧ s.obs.map (·.res) = [some [3]] ∧ s.threads.all (fun th => th.prog.isEmpty) := by
  decide

end Fjall.Conc
