/-
  C05 — snapshots are frozen in time.  Stage 1: the snapshot tracker keeps the GC watermark
  below every live snapshot instant, for every history of open / clone / close / publish / gc /
  pullup and for every DashMap iteration order.
-/
import FjallModel.Lemmas.Tracker
namespace Fjall.Tracker

/-- **Tracker invariant.** In every state reachable by disciplined operations (a nonce is cloned
    and closed only while alive; `gc` may visit the table in *any* order):
    (A) the table counts every live nonce, (B) the watermark is strictly below every live non-zero
    instant (and 0 while an instant-0 view lives), (C) the watermark is below the visible seqno,
    (D) no table entry lies in the future. -/
theorem c05_tracker_inv (g : G) (h : Reach g) : Inv g := reach_inv g h

/-- the same over explicit operation lists -/
theorem c05_tracker_inv_run (ops : List Op) (g : G) (hg : Inv g)
    (hd : ∀ (pre : List Op) (o : Op) (post : List Op), ops = pre ++ o :: post →
      Disciplined (runG g pre) o) : Inv (runG g ops) := by
  induction ops generalizing g with
  | nil => exact hg
  | cons o os ih =>
    have h0 : Disciplined g o := hd [] o os rfl
    apply ih (stepG g o) (step_inv g o h0 hg)
    intro pre o' post heq
    have := hd (o :: pre) o' post (by simp [heq])
    simpa [runG] using this

/-- (E) the watermark never moves backwards — although `pullup` stores instead of taking a max. -/
theorem c05_watermark_monotone (g : G) (o : Op) (h : Reach g) : g.t.wm ≤ (stepG g o).t.wm :=
  wm_mono g o (reach_inv g h)

/-- What protects a reader: while a nonce at instant `i` is alive, every watermark handed to
    flush / compaction / version-history GC is `≤ i - 1`. -/
theorem c05_live_instant_protected (g : G) (h : Reach g) (i : Nat) (hi : i ∈ g.live) :
    g.t.wm ≤ i - 1 := (reach_inv g h).safe i hi

/-- Finding F19 (repaired by a `fix:` commit): with `0` as the "nothing retained yet" marker the
    result depended on the DashMap order; visiting `5, 0, 9` with live views at 0, 5 and 9 lifted
    the watermark to 8, past the live view at 5. -/
theorem c05_counterexample_gc_sentinel :
    let t : Tracker := { data := [(5, 1), (0, 1), (9, 1)], seqno := 12, wm := 0 }
    (gcOld t.data t).wm = 8 ∧ (gcWith t.data t).wm = 0 := by
  decide

/-! Non-vacuity: a reachable state with two nonces at one instant, a `gc` between the closes. -/
example : Reach (runG {} [.open, .open, .publish 4, .open, .close 0, .gc [(0, 1), (5, 1)]]) := by
  simp only [runG]
  refine Reach.step _ _ (Reach.step _ _ (Reach.step _ _ (Reach.step _ _ (Reach.step _ _
    (Reach.step _ _ Reach.init ?_) ?_) ?_) ?_) ?_) ?_ <;> simp [Disciplined, stepG, step, bump, decr]

end Fjall.Tracker
