/-
  C14 — concurrent single operations are linearizable and no write is lost (Conc model).
-/
import FjallModel.Lemmas.ConcLin
namespace Fjall.Conc
open Fjall Fjall.Spec

/-- **Linearizability of reads and writes**, for every program and schedule: replaying the
    linearization points in history order — a write takes effect when its item is applied to the
    memtable (inside the journal critical section), a `get`-style read when it reads — against a
    plain sequential map reproduces the result of every read. -/
theorem c14_linearizable (progs : List (List Cmd)) (sched : List Tid) :
    Linearizable (run {} (init progs) sched).log :=
  (run_linv {} rfl _ sched (inv_init progs) (linv_init progs)).2.linOk

/-- **Real-time order**: in the history, calls and returns of a thread alternate and every
    linearization point of an operation lies between its call and its return.  Hence the
    linearization order extends the real-time order: if operation A returned before operation B was
    called, A's point precedes B's; in particular a read that starts after a write returned sees
    that write or a later one. -/
theorem c14_real_time (progs : List (List Cmd)) (sched : List Tid) :
    WellBracketed (run {} (init progs) sched).log :=
  (run_linv {} rfl _ sched (inv_init progs) (linv_init progs)).2.wbOk

theorem specStore_sorted (bs : List (Nat × List Item)) (h : bs.Pairwise (fun a b => a.1 < b.1)) :
    (specStore bs).Pairwise (fun a b => a.seqno ≤ b.seqno) := by
  induction bs with
  | nil => exact List.Pairwise.nil
  | cons b r ih =>
    have ⟨h1, h2⟩ := List.pairwise_cons.mp h
    have e : specStore (b :: r) = b.2.map (Item.entry b.1) ++ specStore r := by simp [specStore]
    rw [e, List.pairwise_append]
    refine ⟨?_, ih h2, ?_⟩
    · rw [List.pairwise_map]
      exact List.pairwise_of_forall (fun _ _ => Nat.le_refl _)
    · intro x hx y hy
      rw [entry_seqno _ _ x hx]
      obtain ⟨b', hb', hbe⟩ := specStore_seqno_mem r y hy
      rw [hbe]
      exact Nat.le_of_lt (h1 b' hb')

/-- **Seqno order = journal order = apply order**: the journal's writes carry strictly increasing
    seqnos and the memtables received their entries in non-decreasing seqno order. -/
theorem c14_orders_agree (progs : List (List Cmd)) (sched : List Tid) :
    let s := run {} (init progs) sched
    s.batches.Pairwise (fun a b => a.1 < b.1) ∧ s.store.Pairwise (fun a b => a.seqno ≤ b.seqno) := by
  intro s
  have hi := run_inv {} rfl _ sched (inv_init progs)
  refine ⟨hi.batSorted, ?_⟩
  have hsh := hi.shape
  unfold Shape at hsh
  split at hsh
  · rename_i _ sq done rest hl
    obtain ⟨bs, hb, hs⟩ := hsh
    have hsorted := hi.batSorted
    rw [hb, List.pairwise_append] at hsorted
    show (run {} (init progs) sched).store.Pairwise _
    rw [hs, List.pairwise_append]
    refine ⟨specStore_sorted bs hsorted.1, ?_, ?_⟩
    · rw [List.pairwise_map]
      exact List.pairwise_of_forall (fun _ _ => Nat.le_refl _)
    · intro x hx y hy
      rw [entry_seqno _ _ y hy]
      obtain ⟨b', hb', hbe⟩ := specStore_seqno_mem bs x hx
      rw [hbe]
      exact Nat.le_of_lt (hsorted.2.2 b' hb' (sq, done ++ rest) (by simp))
  · show (run {} (init progs) sched).store.Pairwise _
    rw [hsh]; exact specStore_sorted _ hi.batSorted

/-- **No write is lost**: whenever no write is in flight (in particular after all threads have
    finished) the memtables hold exactly the items of all journaled = acknowledged writes, each
    entirely, in seqno order; the visible content is the acknowledged writes applied in that order. -/
theorem c14_final_content (progs : List (List Cmd)) (sched : List Tid)
    (hq : (run {} (init progs) sched).lock = none) :
    (run {} (init progs) sched).store = specStore (run {} (init progs) sched).batches := by
  have hsh := (run_inv {} rfl _ sched (inv_init progs)).shape
  simp only [Shape, hq] at hsh
  exact hsh

/-! Non-vacuity: two writers on one key, a reader between them, and a rotation. -/
example :
    let s := run {} (init [[.write [⟨1, [1], some [1]⟩], .readTop 1 [1]], [.write [⟨1, [1], none⟩]], [.readTop 1 [1], .rotate]])
      [0, 0, 1, 0, 0, 2, 0, 0, 1, 1, 1, 2, 2, 1, 1, 1, 0, 2, 2, 2]
    s.lock = none ∧ s.batches.length = 2 ∧ (linRun s.log).1.length = 2 ∧ s.log.length = 12 ∧
    s.threads.all (fun th => th.prog.isEmpty) := by
  decide

end Fjall.Conc
