/-
  C14 — concurrent single operations are linearizable and no write is lost (Conc model).
-/
import FjallModel.Lemmas.ConcLin
import FjallModel.Lemmas.StallRank
import FjallModel.Conc.L0Halt
namespace Fjall.Conc
open Fjall Fjall.Spec

/-- **Linearizability of reads and writes**, for every program and schedule: replaying the
    linearization points in history order — a write takes effect when its item is applied to the
    memtable (inside the journal critical section), a `get`-style read when it reads — against a
    plain sequential map reproduces the result of every read. -/
theorem c14_linearizable (progs : List (List Cmd)) (sched : List Tid) :
    Linearizable (run {} (init progs) sched).log :=
  (run_linv {} rfl _ sched (inv_init progs) (linv_init progs)).2.linOk

/-- **Real-time order**: in the history, calls and returns of a thread alternate and every
    linearization point of an operation lies between its call and its return.  Hence the
    linearization order extends the real-time order: if operation A returned before operation B was
    called, A's point precedes B's; in particular a read that starts after a write returned sees
    that write or a later one. -/
theorem c14_real_time (progs : List (List Cmd)) (sched : List Tid) :
    WellBracketed (run {} (init progs) sched).log :=
  (run_linv {} rfl _ sched (inv_init progs) (linv_init progs)).2.wbOk

theorem specStore_sorted (bs : List (Nat × List Item)) (h : bs.Pairwise (fun a b => a.1 < b.1)) :
    (specStore bs).Pairwise (fun a b => a.seqno ≤ b.seqno) := by
  induction bs with
  | nil => exact List.Pairwise.nil
  | cons b r ih =>
    have ⟨h1, h2⟩ := List.pairwise_cons.mp h
    have e : specStore (b :: r) = b.2.map (Item.entry b.1) ++ specStore r := by simp [specStore]
    rw [e, List.pairwise_append]
    refine ⟨?_, ih h2, ?_⟩
    · rw [List.pairwise_map]
      exact List.pairwise_of_forall (fun _ _ => Nat.le_refl _)
    · intro x hx y hy
      rw [entry_seqno _ _ x hx]
      obtain ⟨b', hb', hbe⟩ := specStore_seqno_mem r y hy
      rw [hbe]
      exact Nat.le_of_lt (h1 b' hb')

/-- **Seqno order = journal order = apply order**: the journal's writes carry strictly increasing
    seqnos and the memtables received their entries in non-decreasing seqno order. -/
theorem c14_orders_agree (progs : List (List Cmd)) (sched : List Tid) :
    let s := run {} (init progs) sched
    s.batches.Pairwise (fun a b => a.1 < b.1) ∧ s.store.Pairwise (fun a b => a.seqno ≤ b.seqno) := by
  intro s
  have hi := run_inv {} rfl _ sched (inv_init progs)
  refine ⟨hi.batSorted, ?_⟩
  have hsh := hi.shape
  unfold Shape at hsh
  split at hsh
  · rename_i _ sq done rest hl
    obtain ⟨bs, hb, hs⟩ := hsh
    have hsorted := hi.batSorted
    rw [hb, List.pairwise_append] at hsorted
    show (run {} (init progs) sched).store.Pairwise _
    rw [hs, List.pairwise_append]
    refine ⟨specStore_sorted bs hsorted.1, ?_, ?_⟩
    · rw [List.pairwise_map]
      exact List.pairwise_of_forall (fun _ _ => Nat.le_refl _)
    · intro x hx y hy
      rw [entry_seqno _ _ y hy]
      obtain ⟨b', hb', hbe⟩ := specStore_seqno_mem bs x hx
      rw [hbe]
      exact Nat.le_of_lt (hsorted.2.2 b' hb' (sq, done ++ rest) (by simp))
  · show (run {} (init progs) sched).store.Pairwise _
    rw [hsh]; exact specStore_sorted _ hi.batSorted

/-- **No write is lost**: whenever no write is in flight (in particular after all threads have
    finished) the memtables hold exactly the items of all journaled = acknowledged writes, each
    entirely, in seqno order; the visible content is the acknowledged writes applied in that order. -/
theorem c14_final_content (progs : List (List Cmd)) (sched : List Tid)
    (hq : (run {} (init progs) sched).lock = none) :
    (run {} (init progs) sched).store = specStore (run {} (init progs) sched).batches := by
  have hsh := (run_inv {} rfl _ sched (inv_init progs)).shape
  simp only [Shape, hq] at hsh
  exact hsh

/-! Non-vacuity: two writers on one key, a reader between them, and a rotation. -/
example :
    let s := run {} (init [[.write [⟨1, [1], some [1]⟩], .readTop 1 [1]], [.write [⟨1, [1], none⟩]], [.readTop 1 [1], .rotate]])
      [0, 0, 1, 0, 0, 2, 0, 0, 1, 1, 1, 2, 2, 1, 1, 1, 0, 2, 2, 2]
    s.lock = none ∧ s.batches.length = 2 ∧ (linRun s.log).1.length = 2 ∧ s.log.length = 12 ∧
    s.threads.all (fun th => th.prog.isEmpty) := by
  decide

end Fjall.Conc

/-! ## "The write stall mechanisms always let writers proceed eventually" -/
namespace Fjall.Stall

theorem rank_init (cfg : Cfg) (progs : List (List Bool)) (n : Nat) :
    rank cfg (init progs n) = (11 + 2 * cfg.fanout) * (progs.map List.length).sum := by
  have h1 : ∀ (K : Nat) (ps : List (List Bool)), ((ps.map fun p => ({ todo := p } : Writer)).map (wrank K)).sum
      = (11 + K) * (ps.map List.length).sum := by
    intro K ps
    induction ps with
    | nil => rfl
    | cons p r ih =>
      simp only [List.map_cons, List.sum_cons, ih, wrank, Nat.mul_add]
  have h2 : ∀ (K k : Nat), ((List.replicate k WkPhase.idle).map (krank K)).sum = 0 := by
    intro K k
    induction k with
    | zero => rfl
    | succ k ih => simp [List.replicate_succ, krank]
  unfold rank init
  simp only [h1, h2, List.length_nil, Nat.mul_zero, Nat.add_zero]

theorem run_workers_length (cfg : Cfg) (sch : List Tid) (st : State) :
    (run cfg st sch).workers.length = st.workers.length := by
  induction sch generalizing st with
  | nil => rfl
  | cons t ts ih =>
    simp only [run, List.foldl_cons]
    have := ih (stepT cfg st t)
    simp only [run] at this
    rw [this]
    cases t with
    | writer i =>
      simp only [stepT]
      split
      · rename_i w _
        unfold stepWriter
        split <;> (try split) <;> simp
      · rfl
    | worker j pk =>
      simp only [stepT]
      split
      · rename_i p _
        unfold stepWorker
        cases p with
        | flushing =>
          simp only
          rw [(sendCompacts_fields cfg cfg.fanout _).2.2.2.2.2.2.2.2.1]
          simp
        | idle => cases pk <;> simp only <;> (repeat' split) <;> simp
        | _ => simp only <;> (repeat' split) <;> simp
      · rfl

/-- **No deadlock between writers, the stall check and the workers** (the code after fix F24:
    workers never wait for room in their own channel; writers leave the journal critical section
    before the stall check).  For every channel capacity, every halt threshold ≥ 1, every
    compaction fan-out, any number of writers with any programs (any pattern of writes that push
    the memtable over its limit), at least one worker, and every schedule: in every reachable
    state in which some writer has not finished, some thread's next step is effective - it is not
    waiting for the lock, a message, room in the channel or a flush - and that step lowers `rank`. -/
theorem c14_stall_no_deadlock (cfg : Cfg) (hc : cfg.Live) (progs : List (List Bool)) (nworkers : Nat)
    (hn : 0 < nworkers) (sched : List Tid) :
    let s := run cfg (init progs nworkers) sched
    s.done = false → ∃ tid, enabled cfg s tid = true ∧ rank cfg (stepT cfg s tid) < rank cfg s := by
  intro s hnd
  have hi : Inv s := run_inv cfg hc _ sched (init_inv progs nworkers)
  have hwk : s.workers ≠ [] := by
    intro e
    have := run_workers_length cfg sched (init progs nworkers)
    rw [show (run cfg (init progs nworkers) sched) = s from rfl, e] at this
    simp [init] at this
    omega
  obtain ⟨tid, he⟩ := progress cfg hc s hi hwk hnd
  exact ⟨tid, he, step_rank cfg hc s tid hi he⟩

/-- **Bounded work**: whatever the schedule, at most `(11 + 2·fanout) · (number of writes)` steps
    are effective.  With `c14_stall_no_deadlock`: a scheduler that keeps running threads whose
    next step is effective - any fair scheduler - brings every writer to the end of its program. -/
theorem c14_stall_bounded_work (cfg : Cfg) (hc : cfg.Live) (progs : List (List Bool)) (nworkers : Nat)
    (sched : List Tid) :
    effSteps cfg (init progs nworkers) sched ≤ (11 + 2 * cfg.fanout) * (progs.map List.length).sum := by
  have := effSteps_le cfg hc (init progs nworkers) sched (init_inv progs nworkers)
  rw [rank_init] at this
  omega

/-- Before fix F24 (the worker notifies with a blocking send): a reachable state in which the
    writer waits for a flush, the only worker waits for room in the channel it alone drains, and
    nothing can move.  (Capacity and threshold scaled down to 1; the schedule is the real one:
    rotation requests fill the channel while the worker is busy.) -/
theorem c14_worker_blocking_send_deadlocks :
    let cfg : Cfg := { cap := 1, limit := 1, workerBlockingSend := true }
    let s := run cfg (init [[true, true]] 1)
      [.writer 0, .writer 0, .writer 0, .worker 0 .rot, .writer 0, .writer 0, .worker 0 .rot, .worker 0 .rot]
    s.done = false ∧ ∀ tid, enabled cfg s tid = false := by
  refine ⟨by decide, ?_⟩
  intro tid
  cases tid with
  | writer i =>
    cases i with
    | zero => decide
    | succ i => cases i <;> rfl
  | worker j pk =>
    cases j with
    | zero => cases pk <;> decide
    | succ j => cases j <;> rfl

/-- Seeded change C14-2 (the journal lock is released only after the stall check): the halted
    writer keeps the lock the flush worker needs. -/
theorem c14_stall_inside_lock_deadlocks :
    let cfg : Cfg := { limit := 1, unlockBeforeStall := false }
    let s := run cfg (init [[true, false]] 1)
      [.writer 0, .writer 0, .writer 0, .worker 0 .rot, .worker 0 .rot, .worker 0 .rot, .writer 0, .writer 0,
       .worker 0 .flush]
    s.done = false ∧ ∀ tid, enabled cfg s tid = false := by
  refine ⟨by decide, ?_⟩
  intro tid
  cases tid with
  | writer i =>
    cases i with
    | zero => decide
    | succ i => cases i <;> rfl
  | worker j pk =>
    cases j with
    | zero => cases pk <;> decide
    | succ j => cases j <;> rfl

/-! Non-vacuity: the same two-write program under the real protocol runs to completion. -/
example :
    let s := run { cap := 1, limit := 1 } (init [[true, true]] 1)
      [.writer 0, .writer 0, .writer 0, .worker 0 .rot, .writer 0, .writer 0, .worker 0 .rot, .worker 0 .rot,
       .worker 0 .rot, .worker 0 .rot, .worker 0 .rot, .writer 0]
    s.done = true := by decide

end Fjall.Stall

/-! ## A limit of the linearizability claim: point reads and scans use different instants -/
namespace Fjall.Conc

/-- the schedule of known finding F27: a writer has applied its item and has not published yet;
    another thread reads the key with `get` (latest state: sees it), then opens a scan (a view
    at the write floor: does not see it). -/
def f27Progs : List (List Cmd) := [[.write [⟨1, [1], some [9]⟩]], [.readTop 1 [1], .snap, .read 1 [1]]]
def f27Sched : List Tid := [0, 0, 0, 0, 1, 1, 1, 1]

/-- **Point reads and scans are not linearizable together** (known finding F27, unchanged code):
    in one thread, `get` returns a value and the scan opened *afterwards* does not contain it.
    `c14_linearizable` is about writes and point reads; a scan is a snapshot read (C06), whose
    instant is capped by the write floor while the write is between its apply and its publish. -/
theorem c14_get_then_scan_counterexample :
    let s := run {} (init f27Progs) f27Sched
    Ev.readTop 1 1 [1] (some [9]) ∈ s.log ∧ s.obs = [⟨1, 0, 1, [1], none⟩] := by
  decide

end Fjall.Conc

/-! ### the write halt on 30+ L0 runs (`check_write_halt`) -/

namespace Fjall.L0Halt

/-- **The L0 halt lets the writer go as soon as the run count is below the threshold**: after any
    sequence of flushes, compactions and iterations of the halt loop, if L0 now has fewer runs than
    the threshold, the writer's next iteration leaves the loop (or it had left already). -/
theorem c14_l0_halt_releases (cfg : Cfg) (hp : cfg.pollCurrent = true) (s : State) (evs : List Ev)
    (hl : (run cfg s evs).l0 < cfg.haltAt) : (step cfg (run cfg s evs) .writer).w = .done := by
  generalize run cfg s evs = r at hl
  cases hw : r.w with
  | idle => simp [step, hw, Nat.not_le.mpr hl]
  | halted seen => simp [step, hw, hp, Nat.not_le.mpr hl]
  | done => simp [step, hw]

/-- polling a version fetched once before the loop (seeded change C14-7): a writer that entered the
    loop never leaves it – whatever flushes, compactions and iterations follow -/
theorem c14_l0_halt_stale_version_never_releases (cfg : Cfg) (hp : cfg.pollCurrent = false) (s : State)
    (seen : Nat) (hw : s.w = .halted seen) (hs : seen ≥ cfg.haltAt) (evs : List Ev) :
    (run cfg s evs).w = .halted seen := by
  induction evs generalizing s with
  | nil => exact hw
  | cons e es ih =>
    apply ih
    cases e with
    | writer => simp [step, hw, hp, hs]
    | flush => simpa [step] using hw
    | compact to => simpa [step] using hw

/-- non-vacuity, the probe's schedule: 30 runs, the writer halts; a compaction leaves one run; the
    writer proceeds – and does not with the stale version -/
example : (run {} { l0 := 30 } [.writer, .writer, .compact 1, .writer]).w = .done ∧
    (run {} { l0 := 30 } [.writer, .writer]).w = .halted 30 ∧
    (run { pollCurrent := false } { l0 := 30 } [.writer, .writer, .compact 1, .writer]).w = .halted 30 := by
  decide

end Fjall.L0Halt
