/-
  C10 — a journal file is deleted only when nothing in it is still needed (stage 1: the eviction
  rule of `JournalManager::maintenance` and the watermarks of `rotate_journal`).
-/
import FjallModel.Lemmas.DbReach
namespace Fjall.Db
open Fjall Fjall.Spec

theorem evictPrefix_spec (db : DbL) (l : List JournalL) :
    ∃ n, evictPrefix db l = l.drop n ∧ ∀ j ∈ l.take n, db.evictable j = true := by
  induction l with
  | nil => exact ⟨0, rfl, by simp⟩
  | cons j rest ih =>
    by_cases he : db.evictable j = true
    · obtain ⟨n, h1, h2⟩ := ih
      refine ⟨n + 1, by simp [evictPrefix, he, h1], ?_⟩
      intro j' hj'
      simp only [List.take_succ_cons, List.mem_cons] at hj'
      rcases hj' with rfl | hj'
      · exact he
      · exact h2 j' hj'
    · exact ⟨0, by simp [evictPrefix, he], by simp⟩

/-- **Oldest first, and only journals whose every watermark is flushed.**  `maintenance` removes a
    prefix of the sealed journals (never a newer one before an older one), touches nothing else, and
    every removed journal passed the eviction test: for each of its watermarks `(ks, lsn)`, the
    keyspace is deleted, or its tables hold a seqno `≥ lsn`, or it holds nothing in memory. -/
theorem c10_evicts_oldest_flushed_only (db : DbL) :
    ∃ n, db.maintenance.sealed = db.sealed.drop n ∧ db.maintenance.kss = db.kss ∧
      db.maintenance.active = db.active ∧
      ∀ j ∈ db.sealed.take n, ∀ wm ∈ j.watermarks,
        (db.find wm.1 = none) ∨ (∃ k p, db.find wm.1 = some k ∧ k.persisted = some p ∧ wm.2 ≤ p) ∨
        (∃ k, db.find wm.1 = some k ∧ k.sealedMem = [] ∧ k.mem = []) := by
  obtain ⟨n, h1, h4⟩ := evictPrefix_spec db db.sealed
  refine ⟨n, h1, rfl, rfl, ?_⟩
  intro j hj wm hwm
  have he := h4 j hj
  simp only [DbL.evictable, List.all_eq_true] at he
  have := he wm hwm
  obtain ⟨id, lsn⟩ := wm
  simp only at this ⊢
  cases hf : db.find id with
  | none => left; rfl
  | some k =>
    right
    rw [hf] at this
    simp only [KsL.flushedUpTo, Bool.or_eq_true, Bool.and_eq_true, List.isEmpty_iff] at this
    rcases this with h1 | ⟨h1, h2⟩
    · left
      cases hp : k.persisted with
      | none => rw [hp] at h1; simp at h1
      | some p => rw [hp] at h1; exact ⟨k, p, rfl, hp, by simpa using h1⟩
    · right; exact ⟨k, rfl, h1, h2⟩

/-- **The number of journal files returns to one** (repaired, finding F10): once every live
    keyspace has flushed everything it holds in memory, `maintenance` removes every sealed
    journal — whatever the tables' highest seqnos say (cleared keyspaces, evicted tombstones). -/
theorem c10_returns_to_one (db : DbL) (h : ∀ k ∈ db.kss, k.sealedMem = [] ∧ k.mem = []) :
    db.maintenance.sealed = [] := by
  have hall : ∀ l : List JournalL, evictPrefix db l = [] := by
    intro l
    induction l with
    | nil => rfl
    | cons j rest ih =>
      have he : db.evictable j = true := by
        simp only [DbL.evictable, List.all_eq_true]
        intro wm _
        obtain ⟨id, lsn⟩ := wm
        simp only
        cases hf : db.find id with
        | none => rfl
        | some k =>
          have hk := List.mem_of_find?_eq_some hf
          obtain ⟨h1, h2⟩ := h k hk
          simp [KsL.flushedUpTo, h1, h2]
      simp [evictPrefix, he, ih]
  simp only [DbL.maintenance]
  exact hall _

theorem maxSeqno_ge (rs : List Rec) (acc : Option Nat) :
    ∀ r ∈ rs, ∃ m, rs.foldl (fun acc r => some (match acc with | none => r.seqno | some a => max a r.seqno)) acc = some m ∧ r.seqno ≤ m := by
  induction rs generalizing acc with
  | nil => intro r hr; simp at hr
  | cons x xs ih =>
    intro r hr
    simp only [List.foldl_cons]
    simp only [List.mem_cons] at hr
    rcases hr with rfl | hr
    · -- the accumulator only grows
      have mono : ∀ (l : List Rec) (a : Nat), ∃ m, l.foldl (fun acc r => some (match acc with | none => r.seqno | some a => max a r.seqno)) (some a) = some m ∧ a ≤ m := by
        intro l
        induction l with
        | nil => intro a; exact ⟨a, rfl, Nat.le_refl _⟩
        | cons y ys ihy =>
          intro a
          simp only [List.foldl_cons]
          obtain ⟨m, hm, hle⟩ := ihy (max a y.seqno)
          exact ⟨m, hm, Nat.le_trans (Nat.le_max_left _ _) hle⟩
      cases acc with
      | none => obtain ⟨m, hm, hle⟩ := mono xs r.seqno; exact ⟨m, hm, hle⟩
      | some a =>
        obtain ⟨m, hm, hle⟩ := mono xs (max a r.seqno)
        exact ⟨m, hm, Nat.le_trans (Nat.le_max_right _ _) hle⟩
    · exact ih _ r hr

/-- **Watermarks cover what is only in memory**: when the journal is rotated, every keyspace that
    still holds unflushed records gets a watermark at least as high as each of them — so the sealed
    journal cannot be evicted before those records are in tables. -/
theorem c10_watermark_covers_memory (db : DbL) (k : KsL) (hk : k ∈ db.kss) (r : Rec)
    (hr : r ∈ k.sealedMem ++ k.mem) :
    ∃ j lsn, db.rotateJournal.sealed = db.sealed ++ [j] ∧ (k.id, lsn) ∈ j.watermarks ∧ r.seqno ≤ lsn := by
  obtain ⟨m, hm, hle⟩ := maxSeqno_ge (k.sealedMem ++ k.mem) none r hr
  refine ⟨_, m, rfl, ?_, hle⟩
  simp only [List.mem_filterMap]
  exact ⟨k, hk, by simp only [KsL.memHighest, maxSeqno]; exact congrArg (Option.map fun h => (k.id, h)) hm⟩

/-- **A crash immediately after any journal deletion loses nothing**: in every state reachable by
    keyspace creation / deletion, writes, clears, memtable rotations, flushes at different times
    and in different orders, ingestion, journal rotations, earlier maintenance runs and reopens,
    running `maintenance` (which unlinks every evictable sealed journal, oldest first) and then
    crashing and recovering yields exactly the content before. -/
theorem c10_crash_after_eviction_loses_nothing (ops : List DOp) (hwf : ProgWF {} ops) (id : KsId) :
    ((drun {} ops).maintenance.recover.absOf id).Equiv ((drun {} ops).absOf id) := by
  have h := maintenance_inv _ (drun_inv {} ops dinv_init hwf)
  have := recover_abs _ h id
  exact this

/-! Non-vacuity: two keyspaces, journal rotation, only one flushed → not evicted; then the other. -/
def exDb : DbL :=
  (((((({} : DbL).createKs "a").1.createKs "b").1.write [(1, .put [1] [1]), (2, .put [2] [2])]).rotateJournal).flush 1)
example : exDb.maintenance.sealed.length = 1 ∧ (exDb.flush 2).maintenance.sealed.length = 0 := by decide

/-! Regression for F10: keyspace 1 is cleared after the rotation; flushing everything empties the list. -/
example : (((exDb.write [(1, .clear)]).flush 1).flush 2).maintenance.sealed.length = 0 := by decide

end Fjall.Db
