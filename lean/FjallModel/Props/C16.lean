/-
  C16 — keyspace options round-trip through their stored form (stage 1: codec level).
-/
import FjallModel.Lemmas.Config
namespace Fjall.Config
open Fjall Fjall.P
open Fjall.Journal (Comp)

/-- The six policy codecs are left inverses on every vector the constructors accept. -/
theorem c16_policy_roundtrip_compression (xs : List Comp) (hl : xs.length ≤ 255) :
    decPolicy decComp (encPolicy encComp xs) = some xs :=
  policy_roundtrip _ _ xs hl fun x _ r => comp_law x r

theorem c16_policy_roundtrip_pinning (xs : List Bool) (hl : xs.length ≤ 255) :
    decPolicy decBool (encPolicy encBool xs) = some xs :=
  policy_roundtrip _ _ xs hl fun x _ r => bool_law x r

theorem c16_policy_roundtrip_block_size (xs : List Nat) (hl : xs.length ≤ 255)
    (hx : ∀ x ∈ xs, x < 2^32) : decPolicy decU32 (encPolicy encU32 xs) = some xs :=
  policy_roundtrip _ _ xs hl fun x h r => u32_law x (hx x h) r

theorem c16_policy_roundtrip_restart_interval (xs : List Nat) (hl : xs.length ≤ 255)
    (hx : ∀ x ∈ xs, x < 2^8) : decPolicy decU8 (encPolicy encU8 xs) = some xs :=
  policy_roundtrip _ _ xs hl fun x h r => u8_law x (hx x h) r

theorem c16_policy_roundtrip_filter (xs : List FilterEntry) (hl : xs.length ≤ 255)
    (hx : ∀ x ∈ xs, x.WF) : decPolicy decFilter (encPolicy encFilter xs) = some xs :=
  policy_roundtrip _ _ xs hl fun x h r => filter_law x (hx x h) r

/-- **Options round trip.** Every option set within the accepted domain is reconstructed exactly
    from the rows `encode_kvs` stores (hash-ratio policies use the u32 codec on f32 bit patterns). -/
theorem c16_options_roundtrip (o : Opts) (ho : o.WF) :
    fromKvs (lookupRow (encodeKvs o)) = some o := by
  obtain ⟨h1, h2, h3, h3', h4, h4', h5, h5', h6, h6', h7, h8, h9, h10, h11, h11', h12, h13, h14⟩ := ho
  obtain ⟨dbc, ibc, dbhr, dbri, ibri, dbs, eprh, fbp, ibp, fbpin, ibpin, fp, mjp, mms, strat, blob⟩ := o
  simp only at *
  have e1 := c16_policy_roundtrip_compression dbc h1
  have e2 := c16_policy_roundtrip_compression ibc h2
  have e3 := c16_policy_roundtrip_block_size dbhr h3 h3'
  have e4 := c16_policy_roundtrip_restart_interval dbri h4 h4'
  have e5 := c16_policy_roundtrip_restart_interval ibri h5 h5'
  have e6 := c16_policy_roundtrip_block_size dbs h6 h6'
  have e7 := c16_policy_roundtrip_pinning fbp h7
  have e8 := c16_policy_roundtrip_pinning ibp h8
  have e9 := c16_policy_roundtrip_pinning fbpin h9
  have e10 := c16_policy_roundtrip_pinning ibpin h10
  have e11 := c16_policy_roundtrip_filter fp h11 h11'
  have e12 := rowNat_leN 8 mms (by simpa using h12)
  cases strat with
  | leveled l0 ts rs =>
    obtain ⟨s1, s2, s3, s4⟩ := h13
    have f1 := rowNat_leN 1 l0 (by simpa using s1)
    have f2 := rowNat_leN 8 ts (by simpa using s2)
    have f3 := c16_policy_roundtrip_block_size rs s3 s4
    cases blob with
    | none =>
      cases eprh <;> cases mjp <;> simp [asciiBytes, fromKvs, decodeBlob, decodeStrategy, lookupRow, encodeKvs, strategyRows, strategyName,
        List.lookup, e1, e2, e3, e4, e5, e6, e7, e8, e9, e10, e11, e12, f1, f2, f3]
    | some b =>
      obtain ⟨b1, b2, b3, b4⟩ := h14 b rfl
      have g1 := rowNat_leN 4 b.ageCutoff (by simpa using b1)
      have g2 := rowNat_leN 8 b.fileTargetSize (by simpa using b2)
      have g3 := rowNat_leN 4 b.separationThreshold (by simpa using b3)
      have g4 := rowNat_leN 4 b.stalenessThreshold (by simpa using b4)
      have g5 : decComp (encComp b.compression) = some (b.compression, []) := by simpa using comp_law b.compression []
      cases eprh <;> cases mjp <;> simp [asciiBytes, fromKvs, decodeBlob, decodeStrategy, lookupRow, encodeKvs, strategyRows, strategyName,
        blobRows, List.lookup, e1, e2, e3, e4, e5, e6, e7, e8, e9, e10, e11, e12, f1, f2, f3,
        g1, g2, g3, g4, g5]
  | fifo lim ttl =>
    obtain ⟨s1, s2⟩ := h13
    have f1 := rowNat_leN 8 lim (by simpa using s1)
    cases ttl with
    | none =>
      cases blob with
      | none =>
        cases eprh <;> cases mjp <;> simp [asciiBytes, fromKvs, decodeBlob, decodeStrategy, lookupRow, encodeKvs, strategyRows, strategyName,
          List.lookup, e1, e2, e3, e4, e5, e6, e7, e8, e9, e10, e11, e12, f1]
      | some b =>
        obtain ⟨b1, b2, b3, b4⟩ := h14 b rfl
        have g1 := rowNat_leN 4 b.ageCutoff (by simpa using b1)
        have g2 := rowNat_leN 8 b.fileTargetSize (by simpa using b2)
        have g3 := rowNat_leN 4 b.separationThreshold (by simpa using b3)
        have g4 := rowNat_leN 4 b.stalenessThreshold (by simpa using b4)
        have g5 : decComp (encComp b.compression) = some (b.compression, []) := by simpa using comp_law b.compression []
        cases eprh <;> cases mjp <;> simp [asciiBytes, fromKvs, decodeBlob, decodeStrategy, lookupRow, encodeKvs, strategyRows, strategyName,
          blobRows, List.lookup, e1, e2, e3, e4, e5, e6, e7, e8, e9, e10, e11, e12, f1,
          g1, g2, g3, g4, g5]
    | some t =>
      have f2 := rowNat_leN 8 t (by simpa using s2 t rfl)
      cases blob with
      | none =>
        cases eprh <;> cases mjp <;> simp [asciiBytes, fromKvs, decodeBlob, decodeStrategy, lookupRow, encodeKvs, strategyRows, strategyName,
          List.lookup, e1, e2, e3, e4, e5, e6, e7, e8, e9, e10, e11, e12, f1, f2]
      | some b =>
        obtain ⟨b1, b2, b3, b4⟩ := h14 b rfl
        have g1 := rowNat_leN 4 b.ageCutoff (by simpa using b1)
        have g2 := rowNat_leN 8 b.fileTargetSize (by simpa using b2)
        have g3 := rowNat_leN 4 b.separationThreshold (by simpa using b3)
        have g4 := rowNat_leN 4 b.stalenessThreshold (by simpa using b4)
        have g5 : decComp (encComp b.compression) = some (b.compression, []) := by simpa using comp_law b.compression []
        cases eprh <;> cases mjp <;> simp [asciiBytes, fromKvs, decodeBlob, decodeStrategy, lookupRow, encodeKvs, strategyRows, strategyName,
          blobRows, List.lookup, e1, e2, e3, e4, e5, e6, e7, e8, e9, e10, e11, e12, f1, f2,
          g1, g2, g3, g4, g5]

end Fjall.Config

namespace Fjall.Config

/-- The guard `≤ 255` is exact: a vector of 256 entries is stored with count byte 0 and comes back
    empty (finding F17: `Leveled::with_level_ratio_policy` accepts such vectors). -/
theorem c16_counterexample_ratio_256 (rs : List Nat) (h : rs.length = 256) :
    decPolicy decU32 (encPolicy encU32 rs) = some [] := by
  simp [decPolicy, encPolicy, h, P.bind, P.byte, decElems, P.pure]

/-! Non-vacuity: the default options of the pinned source satisfy `WF`. -/
def defaultOpts : Opts :=
  { dataBlockCompression := [.none, .none, .lz4], indexBlockCompression := [.none],
    dataBlockHashRatio := [0], dataBlockRestartInterval := [10, 16], indexBlockRestartInterval := [1],
    dataBlockSize := [4096], expectPointReadHits := false,
    filterBlockPartitioning := [false, false, false, true],
    indexBlockPartitioning := [false, false, false, true], filterBlockPinning := [true, false],
    indexBlockPinning := [true, true, false],
    filterPolicy := [.falsePositiveRate 0x38d1b717, .bitsPerKey 0x41200000],
    manualJournalPersist := false, maxMemtableSize := 67108864,
    strategy := .leveled 4 67108864 [10], blob := some ⟨0x3e800000, .lz4, 67108864, 1024, 0x3e800000⟩ }

example : defaultOpts.WF := by
  simp [Opts.WF, defaultOpts, Strategy.WF, BlobOpts.WF, FilterEntry.WF]

end Fjall.Config
