/-
  C04 — close and reopen reproduces the same logical content (log-level model `Db.Log`; histories
  with journal rotation, sealed journals and their eviction included).
-/
import FjallModel.Lemmas.DbReach
namespace Fjall.Db
open Fjall Fjall.Spec

/-- **Replay is idempotent** (the algebraic core of recovery): re-applying an already reflected,
    clear-free segment of the history followed by everything after it changes nothing. -/
theorem c04_replay_idempotent (m : KMap) (z y1 rest : List LOp)
    (h : ∀ op ∈ z ++ y1 ++ rest, op.isClear = false) :
    (applyAll m (z ++ y1 ++ (y1 ++ rest))).Equiv (applyAll m (z ++ y1 ++ rest)) :=
  replay_idempotent m z y1 rest h

/-- **Reopen reproduces every keyspace**, after any history of keyspace creation / deletion,
    writes, batches, clears, memtable rotations, flushes, bulk ingestion of values,
    compaction-induced lowering of the highest persisted seqno (tombstone eviction), **journal
    rotations, eviction of sealed journals**, and any number of earlier reopen cycles with further
    writes in between.  Recovery replays the sealed journals oldest first and then the active one,
    each record only if it is above the highest seqno found in its keyspace's tables before replay
    (repaired, F2 / F3 / F13), sealing the memtables after every sealed journal.
    `ProgWF` asks that writes go through live handles, that ingestion carries no tombstones (see
    `c04_ingested_tombstone_comes_back`) and that observed persisted seqnos are physically possible. -/
theorem c04_reopen_same (ops : List DOp) (hwf : ProgWF {} ops) (id : KsId) :
    ((drun {} ops).recover.absOf id).Equiv ((drun {} ops).absOf id) :=
  recover_abs _ (drun_inv {} ops dinv_init hwf) id

/-- the same set of keyspaces (ids and names) comes back -/
theorem c04_reopen_same_keyspaces (ops : List DOp) (hwf : ProgWF {} ops) :
    (drun {} ops).recover.kss.map (fun k => (k.id, k.name)) = (drun {} ops).kss.map (fun k => (k.id, k.name)) := by
  have h := drun_inv {} ops dinv_init hwf
  have hinv := recover_inv _ h
  rw [recover_kss_eq _ h.nodup, List.map_map]
  apply List.map_congr_left
  intro k hk
  obtain ⟨hrel, _, _⟩ := recover_ks_general (pbOf (drun {} ops)) k (lookup_pb _ h.nodup k hk) (drun {} ops).sealed
    (drun {} ops).active.recs _ rfl
  simp only [Function.comp]
  rw [hrel.id, hrel.name, replayKs_id]
  congr 1
  -- names are never touched by replay
  have : ∀ (k : KsL) (recs : List Rec), (replayKs k recs).name = k.name := by
    intro k recs
    induction recs generalizing k with
    | nil => rfl
    | cons r rs ih =>
      simp only [replayKs, List.foldl_cons] at ih ⊢
      rw [ih]
      unfold stepKs applyRec
      split
      · cases r.op <;> rfl
      · rfl
  rw [this]

/-- **Known finding F13 (ingested tombstone)**: a tombstone written by bulk ingestion is not in the
    journal; once a last-level compaction evicts it (the tables' highest seqno drops) a reopen
    replays the journal's older put and the deleted key is back.  The only `ProgWF` clause this
    history breaks is "ingestion carries values only". -/
theorem c04_ingested_tombstone_comes_back :
    let ops : List DOp := [.createKs "a", .write [(1, .put [1] [2])], .rotate 1, .flushSealed 1,
      .ingest 1 [([1], none)], .lowerPersisted 1 none]
    ((drun {} ops).absOf 1).get [1] = none ∧ ((drun {} ops).recover.absOf 1).get [1] = some [2] := by
  decide

/-! Non-vacuity: create, write, flush, clear, write, reopen, write, reopen; ingestion over a
    journaled key, tombstone eviction, reopen; two keyspaces with journal rotations, one flushed,
    eviction, reopen. -/
example : ProgWF {} [.createKs "a", .write [(1, .put [1] [2]), (1, .del [5])], .rotate 1, .flushSealed 1,
    .ingest 1 [([1], some [9]), ([7], some [7])], .write [(1, .del [7])], .rotate 1, .flushSealed 1,
    .lowerPersisted 1 (some 3), .reopen, .write [(1, .put [8] [8])], .reopen] := by
  decide

example :
    let ops : List DOp := [.createKs "a", .createKs "b", .write [(1, .put [1] [1]), (2, .put [2] [2])], .rotateJournal,
      .write [(1, .put [3] [3])], .rotate 1, .flushSealed 1, .rotateJournal, .maintenance, .write [(2, .del [2])],
      .reopen, .rotate 2, .flushSealed 2, .maintenance]
    ProgWF {} ops ∧ (drun {} ops).sealed.length = 0 ∧
      ((drun {} ops).kss.map fun k => k.abs.toList) = [[([1], [1]), ([3], [3])], []] := by
  decide

end Fjall.Db
