/-
  C03 — batches are all-or-nothing when the journal ends at any byte (stage 1: reader level).
-/
import FjallModel.Lemmas.ReadJournal
import FjallModel.Props.C15
namespace Fjall.Journal
open Fjall

/-- **Torn tail.** After any complete batches `bs`, a further batch `b` cut at *any* byte offset
    `n` before its end, followed by *any* amount `m` of zero padding (the preallocated tail),
    is discarded as a whole: the reader returns exactly `bs`, raises no error, and truncates the
    file to the end of `bs`. -/
theorem c03_torn_tail (p : Params) (c : Codec) (h : Bytes → Nat) (hp : p.Valid) (hc : c.Law)
    (hh : ∀ x, h x < 2^64) (bs : List WBatch) (hbs : ∀ b ∈ bs, b.WF c) (b : WBatch)
    (hb : b.WF c) (n m : Nat) (hn : n < (encodeBatch p c h b).length) :
    readJournal p c h (encodeBatches p c h bs ++ ((encodeBatch p c h b).take n ++ zeros m)) =
      ⟨bs.map WBatch.toBatch, (encodeBatches p c h bs).length, none⟩ := by
  obtain ⟨fuel, hr⟩ := readJournal_prefix p c h hp hc hh bs hbs
    ((encodeBatch p c h b).take n ++ zeros m)
  rw [hr, torn_batch p c h _ hp hc hh b hb _ (afterBatches_clean p c h bs) n m fuel hn]
  have hcl := afterBatches_clean p c h bs
  have hpos := afterBatches_pos p c h bs
  obtain ⟨_, _, _, _, _, h6⟩ := hcl
  simp [ReadResult.prepend, h6, hpos]

/-- **Repair then append.** The file the reader leaves behind (cut to `finalLen`) is a clean
    journal again: appending a new batch `b'` to it makes `bs ++ [b']` recoverable. -/
theorem c03_repair_then_append (p : Params) (c : Codec) (h : Bytes → Nat) (hp : p.Valid)
    (hc : c.Law) (hh : ∀ x, h x < 2^64) (bs : List WBatch) (hbs : ∀ b ∈ bs, b.WF c) (b : WBatch)
    (hb : b.WF c) (n m : Nat) (hn : n < (encodeBatch p c h b).length) (b' : WBatch)
    (hb' : b'.WF c) :
    let file := encodeBatches p c h bs ++ ((encodeBatch p c h b).take n ++ zeros m)
    let repaired := file.take (readJournal p c h file).finalLen
    readJournal p c h (repaired ++ encodeBatch p c h b') =
      ⟨(bs ++ [b']).map WBatch.toBatch, (encodeBatches p c h (bs ++ [b'])).length, none⟩ := by
  intro file repaired
  have hfile : readJournal p c h file = _ := c03_torn_tail p c h hp hc hh bs hbs b hb n m hn
  have hrep : repaired = encodeBatches p c h bs := by
    simp only [repaired, hfile, file]
    simp
  have henc : encodeBatches p c h (bs ++ [b']) = encodeBatches p c h bs ++ encodeBatch p c h b' := by
    simp [encodeBatches]
  rw [hrep, ← henc]
  exact c15_roundtrip p c h hp hc hh (bs ++ [b']) (by
    intro x hx
    simp at hx
    rcases hx with hx | rfl
    · exact hbs x hx
    · exact hb')

/-! Non-vacuity: a concrete instance of the hypotheses (two complete batches, then a third cut in
    the middle of its compressed item, 100 zero bytes of padding). -/
example : (5 : Nat) < (encodeBatch Params.default idCodec (fun _ => 0) exBatch1).length := by
  decide

end Fjall.Journal
