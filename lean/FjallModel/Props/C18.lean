/-
  C18 — compaction filters act only where assigned, and only as their verdicts say.
-/
import FjallModel.Lemmas.Filter
import FjallModel.Lemmas.Kv
namespace Fjall.Mvcc
open Fjall Fjall.Spec

theorem mstep_inv (f : Filter) (t : Tree) (m : Maint) (h : Inv t) : Inv (mstep f t m) := by
  cases m with
  | rotate => exact rotate_inv t h
  | flush w => exact flush_inv t w h
  | compact i n w =>
    simp only [mstep, Tree.compactF]
    split
    · exact h
    · exact compact_inv _ i n w (mapSeg_inv t f i n h)

theorem mrun_inv (f : Filter) (t : Tree) (ms : List Maint) (h : Inv t) : Inv (mrun f t ms) := by
  induction ms generalizing t with
  | nil => exact h
  | cons m ms ih => exact ih _ (mstep_inv f t m h)

theorem mstep_abs (f : Filter) (t : Tree) (m : Maint) (h : Inv t) (k : Key) :
    (mstep f t m).absGet none k = t.absGet none k ∨
    (mstep f t m).absGet none k = filtered f k (t.absGet none k) := by
  cases m with
  | rotate => left; exact rotate_abs t k none
  | flush w => left; exact flush_abs t w h k
  | compact i n w => exact compactF_abs t f i n w h k

/-- **Original or filtered, nothing else.** Whatever maintenance runs on a filtered keyspace
    (rotations, flushes, compactions of any segment with any watermark, in any order), every key
    shows either its original value or the value its verdict prescribes. -/
theorem c18_filtered_either (f : Filter) (t : Tree) (h : Inv t) (ms : List Maint) (k : Key) :
    (mrun f t ms).absGet none k = t.absGet none k ∨
    (mrun f t ms).absGet none k = filtered f k (t.absGet none k) := by
  induction ms generalizing t with
  | nil => left; rfl
  | cons m ms ih =>
    simp only [mrun, List.foldl_cons]
    have h1 := mstep_abs f t m h k
    have h2 := ih (mstep f t m) (mstep_inv f t m h)
    simp only [mrun] at h2
    rcases h1 with h1 | h1 <;> rcases h2 with h2 | h2
    · left; rw [h2, h1]
    · right; rw [h2, h1]
    · right; rw [h2, h1]
    · right; rw [h2, h1, filtered_idem]

/-- **Keep means untouched**: items the filter keeps are never altered or lost by maintenance. -/
theorem c18_keep_untouched (f : Filter) (t : Tree) (h : Inv t) (ms : List Maint) (k : Key)
    (hk : f k = .keep) : (mrun f t ms).absGet none k = t.absGet none k := by
  rcases c18_filtered_either f t h ms k with h1 | h1
  · exact h1
  · rw [h1, filtered_keep f k _ hk]

/-- **Once filtered, it stays filtered** (until the key is written again): if after some maintenance
    a key shows its filtered form, every further maintenance keeps showing exactly that. -/
theorem c18_filtered_monotone (f : Filter) (t : Tree) (h : Inv t) (ms1 ms2 : List Maint) (k : Key)
    (hf : (mrun f t ms1).absGet none k = filtered f k (t.absGet none k)) :
    (mrun f t (ms1 ++ ms2)).absGet none k = filtered f k (t.absGet none k) := by
  have hsplit : mrun f t (ms1 ++ ms2) = mrun f (mrun f t ms1) ms2 := by simp [mrun]
  rw [hsplit]
  rcases c18_filtered_either f (mrun f t ms1) (mrun_inv f t ms1 h) ms2 k with h1 | h1
  · rw [h1, hf]
  · rw [h1, hf, filtered_idem]

/-- a keyspace *without* a filter is the `C01` case: its compactions change nothing at all -/
theorem c18_unfiltered_unchanged (t : Tree) (h : Inv t) (i n w : Nat) (k : Key) :
    (t.compact i n w).absGet none k = t.absGet none k := compact_abs t i n w h k

/-- **Assignment**: in every state reachable by creating / deleting keyspaces and reopening, a
    keyspace has a filter installed iff the builder's assigner yields one for its *name* — both for
    newly created and for recovered keyspaces, and for no other keyspace. -/
theorem c18_assignment (a : String → Bool) (ops : List AOp) :
    ∀ k ∈ ops.foldl (astep a) [], k.hasFilter = a k.name := by
  have : ∀ (s : List KsF), (∀ k ∈ s, k.hasFilter = a k.name) →
      ∀ k ∈ ops.foldl (astep a) s, k.hasFilter = a k.name := by
    induction ops with
    | nil => intro s hs; exact hs
    | cons o os ih =>
      intro s hs
      simp only [List.foldl_cons]
      apply ih
      cases o with
      | create n =>
        simp only [astep]
        split
        · exact hs
        · intro k hk
          simp only [List.mem_append, List.mem_cons, List.mem_nil_iff, or_false] at hk
          rcases hk with hk | rfl
          · exact hs k hk
          · rfl
      | delete n =>
        intro k hk
        exact hs k (List.mem_filter.mp hk).1
      | reopen =>
        intro k hk
        simp only [astep, List.mem_map] at hk
        obtain ⟨k0, _, rfl⟩ := hk
        rfl
  exact this [] (by simp)

/-! Non-vacuity: remove / replace / keep verdicts on flushed data, compaction of the only run. -/
def exFilter : Filter := fun k => if k = [1] then .remove else if k = [2] then .replace [9] else .keep
def exTree : Tree := { tables := [[⟨[1], 3, .value, [5]⟩, ⟨[2], 4, .value, [6]⟩, ⟨[3], 5, .value, [7]⟩]] }
example : ((mrun exFilter exTree [.compact 0 1 0]).absGet none [1],
           (mrun exFilter exTree [.compact 0 1 0]).absGet none [2],
           (mrun exFilter exTree [.compact 0 1 0]).absGet none [3]) = (none, some [9], some [7]) := by decide

end Fjall.Mvcc
