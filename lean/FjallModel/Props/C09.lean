/-
  C09 — persist(SyncData | SyncAll) makes all earlier writes power-loss durable (writer model:
  `BufWriter` with its 8 KiB rule, `is_buffer_dirty`, fsync / fdatasync, any fault plan).
-/
import FjallModel.Lemmas.Writer
import FjallModel.Lemmas.WriterDir
import FjallModel.Props.C03
namespace Fjall.Journal
open Fjall

/-- the writer never holds buffered bytes while it believes it is clean -/
def Writer.Inv (w : Writer) : Prop := w.dirty = false → w.buf = []

/-- **Sync means durable.** When `persist(SyncData)` / `persist(SyncAll)` returns Ok — directly, as
    the durability of a batch / transaction commit, in `rotate` or in `Journal::drop` — every byte
    handed to the writer so far is in the file *and* covered by the sync: `synced = |file|` and the
    user-space buffer is empty. Holds under every fault plan (an Ok is never reported otherwise). -/
theorem c09_sync_durable (w : Writer) (m : PersistMode) (hm : m ≠ .buffer) (hinv : w.Inv)
    (h : (w.persist m).2 = .ok) :
    (w.persist m).1.buf = [] ∧ (w.persist m).1.synced = (w.persist m).1.os.length :=
  ⟨(persist_sync_ok w m hm hinv h).1, (persist_sync_ok w m hm hinv h).2.1⟩

/-- with manual journal persist, `persist(Buffer)` is what moves earlier writes out of the process:
    after it returns Ok the user-space buffer is empty, so a process crash loses nothing written
    before it -/
theorem c09_manual_buffer (w : Writer) (hinv : w.Inv) (h : (w.persist .buffer).2 = .ok) :
    (w.persist .buffer).1.buf = [] :=
  persist_buffer_ok w hinv h

/-- the invariant needed above holds after every append and every persist -/
theorem c09_inv_after_write (w : Writer) (ps : List Bytes) : (w.writePieces ps).1.Inv := by
  intro hd
  rw [writePieces_dirty] at hd
  exact absurd hd (by simp)

theorem c09_inv_after_persist (w : Writer) (m : PersistMode) (hinv : w.Inv) (h : (w.persist m).2 = .ok) :
    (w.persist m).1.Inv := by
  intro _
  cases m with
  | buffer => exact persist_buffer_ok w hinv h
  | syncData => exact (persist_sync_ok w .syncData (by simp) hinv h).1
  | syncAll => exact (persist_sync_ok w .syncAll (by simp) hinv h).1

/-- **A sealed journal is durable as a whole**: when a journal rotation succeeds, the file that was
    sealed holds every byte handed to the writer before the rotation and all of it is covered by
    the `fsync` — whatever was or was not synced before; the new journal starts empty with an empty
    user-space buffer.  (Later persists only sync the new file.) -/
theorem c09_rotate_seals_durably (db : JDb) (hinv : db.w.Inv) (h : (jstep db .rotate).2 = .ok) :
    ∃ content, (jstep db .rotate).1.sealed = db.sealed ++ [(content, content.length)] ∧
      content = (db.w.persist .syncAll).1.os ∧
      (jstep db .rotate).1.w.os = [] ∧ (jstep db .rotate).1.w.buf = [] := by
  by_cases hp : db.poisoned = true
  · simp [jstep, hp] at h
  · have hp' : db.poisoned = false := by simpa using hp
    cases hq : db.w.persist .syncAll with
    | mk w' r' =>
      cases r' with
      | err => simp [jstep, hp', hq] at h
      | ok =>
        have hok := persist_sync_ok db.w .syncAll (by simp) hinv (by rw [hq])
        rw [hq] at hok
        simp only at hok
        refine ⟨w'.os, ?_, rfl, ?_, ?_⟩
        · simp [jstep, hp', hq, hok.2.1]
        · simp [jstep, hp', hq]
        · simp [jstep, hp', hq, hok.1]

/-- **Journal files survive a power loss.** For every database state at an operation boundary
    (`FilesOk`: holds for a fresh database) and every sequence of operations – writes, batches,
    persists at any level, any number of journal rotations, under any fault plan – a power loss
    after the last operation leaves *every* journal file created so far in the folder: each sealed
    one with its whole content, the active one with everything covered by its last sync.  Rests on
    `Writer::rotate` syncing the folder after it created the next file (`dirsync` in the model's
    trace, compared with the real run's trace by the `fault` engine). -/
theorem c09_journal_files_survive_power_loss (db : JDb) (ops : List JOp) (h : db.FilesOk) :
    (jrun db ops).1.powerLossFiles =
      (jrun db ops).1.sealed.map (·.1) ++ [(jrun db ops).1.w.os.take (jrun db ops).1.w.synced] :=
  powerLossFiles_of_filesOk _ (jrun_filesOk db ops h)

/-- the fresh database satisfies the hypothesis -/
theorem c09_fresh_filesOk (manual : Bool) : ({ manual := manual } : JDb).FilesOk :=
  ⟨fun _ _ => rfl, rfl, rfl, (fun p hp => nomatch hp), rfl⟩

/-- without the folder sync in `rotate` (seeded change C09-7) the file created by a rotation has no
    durable directory entry: a write made durable with `SyncAll` *after* the rotation is in a file
    that a power loss removes as a whole -/
theorem c09_rotate_without_folder_sync_loses_file :
    let db := (jrun ({ rotateSyncsFolder := false } : JDb)
      [.rotate, .batch [[1, 2, 3]] (some .syncAll)]).1
    db.w.synced = 3 ∧ db.sealed.length = 1 ∧ db.powerLossFiles.length = 1 := by
  decide

/-! What is durable is readable: the power-loss image `durable prefix ++ zero padding` of a journal
    made of complete batches `bs` followed by a partially synced batch reads back as `bs` — that is
    `c03_torn_tail`. -/

/-! Non-vacuity (buffer capacity scaled down to 16 bytes): a batch whose pieces overflow the buffer
    is written with two write(2) calls, then SyncData. -/
example :
    let w1 := (({ cap := 16 } : Writer).writePieces [[1, 1], [2, 2, 2, 2, 2, 2], [3, 3, 3, 3, 3, 3], [4, 4, 4, 4, 4, 4], [5, 5]]).1
    (w1.persist .syncData).2 = .ok ∧ (w1.persist .syncData).1.synced = 22 ∧
      (w1.persist .syncData).1.trace = [.write 14 14, .write 8 8, .fdatasync true] := by
  decide

end Fjall.Journal
