/-
  C11 — after reopening, new writes supersede everything recovered (log-level model).
-/
import FjallModel.Lemmas.DbReach
namespace Fjall.Db
open Fjall Fjall.Spec

/-- **The seqno counter dominates everything recovered**: after `recover` the counter is above
    every seqno held in any table or memtable of any keyspace *and* above every seqno present in
    any journal record (sealed or active, resolved or not). For every disk state. -/
theorem c11_seqno_dominates (db : DbL) :
    (∀ k ∈ db.recover.kss, ∀ r ∈ k.tables ++ k.sealedMem ++ k.mem, r.seqno < db.recover.seqno) ∧
    (∀ j ∈ db.sealed, ∀ r ∈ j.recs, r.seqno < db.recover.seqno) ∧
    (∀ r ∈ db.active.recs, r.seqno < db.recover.seqno) := by
  -- name the pieces of `recover`
  simp only [DbL.recover]
  generalize hk2 : (List.foldl replayRec _ _) = kss2
  generalize hall : ((kss2.flatMap fun k => (k.tables ++ k.sealedMem ++ k.mem).map (·.seqno)) ++
    (db.sealed.flatMap fun j => j.recs.map (·.seqno)) ++ db.active.recs.map (·.seqno)) = all
  have hmax := (foldl_max_ge all 0).2
  have key : ∀ x ∈ all, x < (if (!all.isEmpty) = true then all.foldl max 0 + 1 else 0) := by
    intro x hx
    have hne : all.isEmpty = false := by cases all <;> simp_all
    simp only [hne, Bool.not_false, if_true]
    exact Nat.lt_succ_of_le (hmax x hx)
  refine ⟨fun k hk r hr => key _ ?_, fun j hj r hr => key _ ?_, fun r hr => key _ ?_⟩
  · rw [← hall]; simp only [List.mem_append, List.mem_flatMap, List.mem_map]
    left; left; exact ⟨k, hk, r, by simpa [List.mem_append, or_assoc] using hr, rfl⟩
  · rw [← hall]; simp only [List.mem_append, List.mem_flatMap, List.mem_map]
    left; right; exact ⟨j, hj, r, hr, rfl⟩
  · rw [← hall]; simp only [List.mem_append, List.mem_flatMap, List.mem_map]
    right; exact ⟨r, hr, rfl⟩

/-- a write to a live keyspace replaces whatever value was there (in particular whatever was
    recovered), a remove hides it -/
theorem c11_overwrite_wins (db : DbL) (k0 : KsL) (hk : db.find k0.id = some k0) (key : Key) (v : Val) :
    ((db.write [(k0.id, .put key v)]).absOf k0.id).get key = some v ∧
    ((db.write [(k0.id, .del key)]).absOf k0.id).get key = none := by
  have hfind : ∀ items, (db.write items).find k0.id =
      some (replayKs k0 (items.map fun (ks, op) => (⟨db.seqno, ks, op, false⟩ : Rec))) := by
    intro items
    simp only [DbL.find, write_kss]
    rw [find_map_id _ _ (fun k => by simp [replayKs_id])]
    simp only [DbL.find] at hk
    rw [hk]; rfl
  constructor
  · simp only [DbL.absOf, hfind, List.map_cons, List.map_nil]
    rw [replayKs_abs]
    simp [opsOf, applyAll, applyOp]
  · simp only [DbL.absOf, hfind, List.map_cons, List.map_nil]
    rw [replayKs_abs]
    simp [opsOf, applyAll, applyOp]

/-! Non-vacuity / regression for finding F11 (fixed): the journal's newest record is a clear. -/
example : (drun {} [.createKs "a", .write [(1, .put [1] [2])], .write [(1, .clear)]]).recover.seqno = 3 := by
  decide

end Fjall.Db
