/-
  Obligations about the values *extracted from the current source*:
  the tag / trailer constants satisfy the side conditions of the journal theorems, and the
  extracted field layouts interpret to the model's encoders.
-/
import Generated.Params
import Generated.Layout
namespace Generated
open Fjall Fjall.Journal Fjall.Journal.Layout

/-- four pairwise distinct non-zero tags, non-empty trailer whose last byte is non-zero -/
theorem params_valid : params.Valid := by decide

/-- the extracted constants are the ones the hand-written model was validated with
    (a change here is not by itself a violation; it is reported so the model is re-examined) -/
theorem params_eq_default : params = Params.default := by decide

theorem layout_matches (c : Codec) (e : Entry) :
    encodeEntry params c e =
      interp (envOf params c e)
        (match e with
         | .start .. => startLayout
         | .item .. => itemLayout
         | .fin .. => endLayout
         | .clear .. => clearLayout) := by
  cases e <;>
    simp [encodeEntry, encodeItem, interp, fieldBytes, envOf, startLayout, itemLayout, endLayout,
      clearLayout, leN_one_toNat]

end Generated
