import FjallModel.Bytes
import FjallModel.Journal.Entry
