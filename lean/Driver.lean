import Driver.Main
