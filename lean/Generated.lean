import Generated.Params
import Generated.Layout
import Generated.SideConditions
