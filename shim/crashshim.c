/* LD_PRELOAD shim: log / fail the n-th journal syscall (write, fsync, fdatasync, ftruncate).
 *   VERIF_SHIM_LOG=<file>     append one line per intercepted call on a journal file
 *   VERIF_SHIM_FAIL=<n>:<errno>[:short=<k>][:once]   the n-th (1-based) journal syscall fails with errno
 *                                             (and every later one too, unless `once`)
 *                                             (a write first transfers k bytes, then later ones fail)
 *   VERIF_SHIM_KILL=<n>       _exit(137) right before the n-th journal syscall
 *   VERIF_SHIM_ARM_FILE=<p>   numbering / logging / faults start once this file exists
 * A "journal file" is any path ending in ".jnl" opened by this process.
 * Not counted, only logged: `open:<name>` (which file an fd refers to), `create:<name>` (a journal file
 * opened with O_CREAT) and `dirsync` (fsync of the directory that holds the journal files): a file created
 * after the last `dirsync` has no durable directory entry yet.
 */
#define _GNU_SOURCE
#include <dlfcn.h>
#include <errno.h>
#include <fcntl.h>
#include <stdarg.h>
#include <stdio.h>
#include <stdlib.h>
#include <string.h>
#include <unistd.h>
#include <sys/types.h>

static int jfd[4096];
static long counter = 0;
static long fail_at = -1, fail_errno = 5, short_k = -1, kill_at = -1, fail_once = 0;
static int logfd = -1;
static int inited = 0;
static int armed = 0;
static const char *arm_file = 0;

static ssize_t (*real_write)(int, const void *, size_t);
static int (*real_fsync)(int);
static int (*real_fdatasync)(int);
static int (*real_ftruncate)(int, off_t);
static int (*real_open)(const char *, int, ...);
static int (*real_open64)(const char *, int, ...);
static int (*real_openat)(int, const char *, int, ...);
static int (*real_close)(int);

static void init(void) {
    if (inited) return;
    inited = 1;
    real_write = dlsym(RTLD_NEXT, "write");
    real_fsync = dlsym(RTLD_NEXT, "fsync");
    real_fdatasync = dlsym(RTLD_NEXT, "fdatasync");
    real_ftruncate = dlsym(RTLD_NEXT, "ftruncate");
    real_open = dlsym(RTLD_NEXT, "open");
    real_open64 = dlsym(RTLD_NEXT, "open64");
    real_openat = dlsym(RTLD_NEXT, "openat");
    real_close = dlsym(RTLD_NEXT, "close");
    const char *l = getenv("VERIF_SHIM_LOG");
    if (l) logfd = real_open(l, O_WRONLY | O_CREAT | O_APPEND, 0644);
    const char *f = getenv("VERIF_SHIM_FAIL");
    if (f) {
        fail_at = atol(f);
        const char *c = strchr(f, ':');
        if (c) { fail_errno = atol(c + 1); const char *s = strstr(c + 1, "short="); if (s) short_k = atol(s + 6); if (strstr(c + 1, "once")) fail_once = 1; }
    }
    arm_file = getenv("VERIF_SHIM_ARM_FILE");
    if (!arm_file) armed = 1;
    const char *k = getenv("VERIF_SHIM_KILL");
    if (k) kill_at = atol(k);
}

static int is_jnl(const char *p) {
    size_t n = strlen(p);
    return n >= 4 && strcmp(p + n - 4, ".jnl") == 0;
}

static int cur_fd = -1;
static char jdir[1024];

static void note(const char *what, long a, long res) {
    if (logfd < 0 || !armed) return;
    char b[160];
    int n = snprintf(b, sizeof b, "%ld %s %ld %ld %d\n", counter, what, a, res, cur_fd);
    real_write(logfd, b, n);
}

static int is_armed(void);

static void track(int fd, const char *p, int flags) {
    if (fd >= 0 && fd < 4096) {
        jfd[fd] = is_jnl(p);
        if (jfd[fd]) {
            const char *slash = strrchr(p, '/');
            if (slash && (size_t)(slash - p) < sizeof jdir) { memcpy(jdir, p, (size_t)(slash - p)); jdir[slash - p] = 0; }
        }
        if (jfd[fd] && logfd >= 0) {
            /* which file an fd refers to (logged whether armed or not; not a counted call) */
            const char *base = strrchr(p, '/');
            base = base ? base + 1 : p;
            char b[200];
            int n = snprintf(b, sizeof b, "0 open:%s %d 0 %d\n", base, fd, fd);
            real_write(logfd, b, n);
            if ((flags & O_CREAT) && is_armed()) {
                n = snprintf(b, sizeof b, "0 create:%s %d 0 %d\n", base, fd, fd);
                real_write(logfd, b, n);
            }
        }
    }
}

int open(const char *p, int flags, ...) {
    init();
    mode_t m = 0;
    if (flags & (O_CREAT | O_TMPFILE)) { va_list ap; va_start(ap, flags); m = va_arg(ap, mode_t); va_end(ap); }
    int fd = real_open(p, flags, m);
    track(fd, p, flags);
    return fd;
}
int open64(const char *p, int flags, ...) {
    init();
    mode_t m = 0;
    if (flags & (O_CREAT | O_TMPFILE)) { va_list ap; va_start(ap, flags); m = va_arg(ap, mode_t); va_end(ap); }
    int fd = real_open64 ? real_open64(p, flags, m) : real_open(p, flags, m);
    track(fd, p, flags);
    return fd;
}
int openat(int d, const char *p, int flags, ...) {
    init();
    mode_t m = 0;
    if (flags & (O_CREAT | O_TMPFILE)) { va_list ap; va_start(ap, flags); m = va_arg(ap, mode_t); va_end(ap); }
    int fd = real_openat(d, p, flags, m);
    track(fd, p, flags);
    return fd;
}
int close(int fd) {
    init();
    if (fd >= 0 && fd < 4096) jfd[fd] = 0;
    return real_close(fd);
}

static int is_armed(void) {
    if (armed) return 1;
    if (arm_file && access(arm_file, F_OK) == 0) armed = 1;
    return armed;
}

/* returns 1 when the call must fail */
static int gate(void) {
    if (!is_armed()) return 0;
    counter++;
    if (kill_at > 0 && counter == kill_at) _exit(137);
    if (fail_at > 0 && (fail_once ? counter == fail_at : counter >= fail_at)) return 1;
    return 0;
}

ssize_t write(int fd, const void *buf, size_t n) {
    init();
    cur_fd = fd;
    if (fd < 0 || fd >= 4096 || !jfd[fd]) return real_write(fd, buf, n);
    if (gate()) {
        if (counter == fail_at && short_k > 0 && (size_t)short_k < n) {
            ssize_t r = real_write(fd, buf, (size_t)short_k);
            note("write-short", (long)n, (long)r);
            return r;
        }
        note("write-fail", (long)n, -fail_errno);
        errno = (int)fail_errno;
        return -1;
    }
    ssize_t r = real_write(fd, buf, n);
    note("write", (long)n, (long)r);
    return r;
}
int fsync(int fd) {
    init();
    cur_fd = fd;
    if (fd >= 0 && fd < 4096 && !jfd[fd] && jdir[0] && logfd >= 0 && is_armed()) {
        /* fsync of the journal directory? (logged, not counted) */
        char lp[64], tgt[1024];
        snprintf(lp, sizeof lp, "/proc/self/fd/%d", fd);
        ssize_t k = readlink(lp, tgt, sizeof tgt - 1);
        if (k > 0) { tgt[k] = 0; if (strcmp(tgt, jdir) == 0) { int r = real_fsync(fd); char b[120]; int n = snprintf(b, sizeof b, "0 dirsync 0 %d %d\n", r, fd); real_write(logfd, b, n); return r; } }
    }
    if (fd < 0 || fd >= 4096 || !jfd[fd]) return real_fsync(fd);
    if (gate()) { note("fsync-fail", 0, -fail_errno); errno = (int)fail_errno; return -1; }
    int r = real_fsync(fd);
    note("fsync", 0, r);
    return r;
}
int fdatasync(int fd) {
    init();
    cur_fd = fd;
    if (fd < 0 || fd >= 4096 || !jfd[fd]) return real_fdatasync(fd);
    if (gate()) { note("fdatasync-fail", 0, -fail_errno); errno = (int)fail_errno; return -1; }
    int r = real_fdatasync(fd);
    note("fdatasync", 0, r);
    return r;
}
int ftruncate(int fd, off_t len) {
    init();
    cur_fd = fd;
    if (fd < 0 || fd >= 4096 || !jfd[fd]) return real_ftruncate(fd, len);
    if (is_armed()) { counter++; if (kill_at > 0 && counter == kill_at) _exit(137); }
    int r = real_ftruncate(fd, len);
    note("ftruncate", (long)len, r);
    return r;
}
int ftruncate64(int fd, off_t len) { return ftruncate(fd, len); }
